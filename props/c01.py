"""C01: rules x backend configurations. The implementation's post-processed condition tree and its
per-leaf renderings go into the Coq model (bit 1: assembled query string == implementation's);
the implementation's query string is lexed, its atoms are decoded and identified with the reference
predicates, and the result is parsed - all inside Coq - and compared, for all truth assignments, with
the reference meaning of the rule (Spec/Ref.v, computed in Coq from the detection items and the generated
condition expression encoded here) (bit 2)."""
import itertools, json, random, re
from vlib.core import Property, Suite, cstr, clist, cbool, copt, cnat

FIELDS = ["f", "g", "h"]
STRS = ["a", "ab", "a*", "*a", "*a*", "a*b", "a?b", "*", "x y", "A", "a\\*", "*a*b*", "", "q\"r", "p«q", "c\\\\d"]
PRECS = [list(p) for p in itertools.permutations(["not", "and", "or"])]


# --------------------------------------------------------------------------------------------------
# generator
def gen_value(rng, mod):
    if mod in ("re", "re|i", "re|m|s"):
        return rng.choice(["a.*b", "x/y", "^ab$", "a\\\\b", "(a|b)c"])
    if mod == "cidr":
        return rng.choice(["10.0.0.0/7", "192.168.1.0/24", "10.1.2.3/32", "172.16.0.0/12", "fe80::/10", "0.0.0.0/0", "10.0.0.0/8"])
    if mod == "exists":
        return rng.choice([True, False])
    if mod in ("windash", "windash|contains"):
        return rng.choice(["-a", "-a /b", "x -y", "noparam"])
    if mod in ("base64offset|contains",):
        return rng.choice(["ab", "abc", "a"])
    if mod in ("gt", "lt", "gte", "lte"):
        return rng.choice([5, 0, 17])
    if mod in ("fieldref", "fieldref|startswith"):
        return rng.choice(["g", "h"])
    if mod in ("minute", "hour"):
        return rng.choice([1, 30])
    r = rng.random()
    if r < 0.62 or mod not in ("", "neq"):
        return rng.choice(STRS if mod in ("", "neq", "cased", "all") else [s for s in STRS if s != ""])
    if r < 0.8:
        return rng.choice([1, 2, 42])
    if r < 0.88:
        return rng.choice([True, False])
    if r < 0.94:
        return None
    return rng.choice([1.5, 10])


MODS = ["", "", "", "", "contains", "startswith", "endswith", "contains|all", "all", "cased", "cased|contains", "re", "re|i",
        "cidr", "exists", "windash", "windash|contains", "base64offset|contains", "gt", "lte", "fieldref",
        "fieldref|startswith", "neq", "contains|neq", "minute"]


def gen_item(rng):
    f = rng.choice(FIELDS)
    mod = rng.choice(MODS)
    key = f + ("|" + mod if mod else "")
    listy = rng.random() < (0.45 if mod in ("", "contains", "startswith", "endswith", "contains|all", "all", "cased", "cidr", "windash", "neq") else 0.0)
    if listy or mod in ("contains|all", "all"):
        n = rng.randint(2, 3)
        vals = []
        for _ in range(n):
            v = gen_value(rng, mod)
            if v is None or isinstance(v, bool) and mod == "":
                v = rng.choice(STRS)
            vals.append(v)
        # same-type lists make in-list shortcuts reachable
        if rng.random() < 0.5:
            vals = [rng.choice(["a", "b", "ab", "c*"]) for _ in range(n)] if rng.random() < 0.7 else [rng.randint(1, 9) for _ in range(n)]
            if mod in ("cidr",):
                vals = [gen_value(rng, mod) for _ in range(n)]
        if mod in ("", "all") and rng.random() < 0.12:
            vals[rng.randrange(len(vals))] = "QX:" + rng.choice(["a", "lst1"])
        return key, vals
    if mod == "" and rng.random() < 0.03:
        return key, "QX:a"
    return key, gen_value(rng, mod)


def gen_detection(rng):
    r = rng.random()
    if r < 0.6:
        d = {}
        for _ in range(rng.choice([1, 1, 2, 2, 3])):
            k, v = gen_item(rng)
            d[k] = v
        return d
    if r < 0.8:
        out = []
        for _ in range(rng.randint(2, 3)):
            d = {}
            for _ in range(rng.choice([1, 1, 2])):
                k, v = gen_item(rng)
                d[k] = v
            out.append(d)
        return out
    if r < 0.92:
        return [rng.choice(["kw", "k*w", "two words", 5, "x\"y"]) for _ in range(rng.randint(1, 3))]
    return rng.choice(["single keyword", 7])


# sel / sel_x: prefix and suffix of the patterns sel*l / sel_*_x overlap in them (a pattern matches only with a disjoint prefix and suffix)
NAMES = ["sel", "sel2", "selx", "filter", "flt_a", "other", "sel_x", "sel_a_x"]


def gen_expr(rng, names, depth):
    r = rng.random()
    if depth == 0 or r < 0.3:
        if rng.random() < 0.2:
            q = rng.choice(["1", "any", "all"])
            pat = rng.choice(["them", "sel*", "*", "fl*", "*er", "s*l*", "sel*l", "sel_*_x", "sel_*x"])
            return ["sel", q, pat]
        return ["id", rng.choice(names)]
    if r < 0.5:
        return ["not", gen_expr(rng, names, depth - 1)]
    op = "and" if r < 0.75 else "or"
    return [op, [gen_expr(rng, names, depth - 1) for _ in range(rng.choice([2, 2, 3]))]]


def spell(e):
    if e[0] == "id":
        return e[1]
    if e[0] == "sel":
        return f"{e[1]} of {e[2]}"
    if e[0] == "not":
        return "not " + (spell(e[1]) if e[1][0] in ("id", "sel") else "(" + spell(e[1]) + ")")
    return (" " + e[0] + " ").join(spell(a) if a[0] in ("id", "sel") else "(" + spell(a) + ")" for a in e[1])


def gen_config(rng):
    return {"prec": rng.choice(PRECS) if rng.random() < 0.6 else ["not", "and", "or"],
            "parenthesize": rng.random() < 0.25, "or_in": rng.random() < 0.5, "and_in": rng.random() < 0.3,
            "in_wild": rng.random() < 0.5, "not_eq": rng.random() < 0.2, "explicit_not_exists": rng.random() < 0.5,
            "cidr_native": rng.random() < 0.5, "startswith": rng.random() < 0.6, "endswith": rng.random() < 0.6,
            "contains": rng.random() < 0.6, "wildmatch": rng.random() < 0.5, "allow_special": rng.random() < 0.3,
            "cs_variants": rng.random() < 0.5, "sep": " "}


def gen_struct(tier, rng):
    n = 1500 if tier == "quick" else 20000
    out = []
    # selector patterns against names in which the pattern's fixed prefix and suffix overlap
    fixed = [(["sel", "sel_x", "sel_a_x", "other"], ["and", [["id", "other"], ["not", ["sel", q, pat]]]])
             for q in ("1", "all") for pat in ("sel_*_x", "sel*l", "sel_*x", "s*l*")]
    # values of different kinds for ONE field, linked on condition level, on backends that fold such links into in-lists: only
    # plain strings and numbers may be folded (case-sensitive strings, timestamp parts, regular expressions ... must stay out)
    mixed = []
    for link in ("or", "and"):
        for m1 in ("", "cased", "minute", "contains", "re", "gt", "exists", "neq", "fieldref", "cased|contains"):
            for m2 in ("", "cased", "minute"):
                d1 = {"f" + ("|" + m1 if m1 else ""): gen_value(rng, m1) if m1 not in ("", "cased") else "Root"}
                d2 = {"f" + ("|" + m2 if m2 else ""): gen_value(rng, m2) if m2 not in ("", "cased") else "admin"}
                mixed.append(({"sel": d1, "sel2": d2, "other": {"f": 3}}, [link, [["id", "sel"], ["id", "sel2"], ["id", "other"]]]))
    for i in range(n):
        dets = None
        if i < len(fixed):
            names, c0 = fixed[i]
        elif i < len(fixed) + len(mixed):
            dets, c0 = mixed[i - len(fixed)]
            names = list(dets)
        else:
            names = rng.sample(NAMES, rng.randint(1, 4))
            c0 = None
        if dets is None:
            dets = {nm: gen_detection(rng) for nm in names}
        conds = [c0 if c0 is not None else gen_expr(rng, names, rng.choice([0, 1, 2, 2, 3]))]
        if rng.random() < 0.15:
            conds.append(gen_expr(rng, names, 2))
        rule = {"title": "t", "logsource": {"category": "c"},
                "detection": dict(dets, condition=[spell(c) for c in conds] if len(conds) > 1 else spell(conds[0]))}
        k = gen_config(rng)
        if len(fixed) <= i < len(fixed) + len(mixed):
            k.update(or_in=True, and_in=True)
        out.append({"k": k, "rule": rule, "exprs": conds})
    return out


# --------------------------------------------------------------------------------------------------
# reference semantics (from the post-modifier detection items and the generating expression)
def tup(x):
    return tuple(tup(y) for y in x) if isinstance(x, list) else x


def norm(parts):
    """patterns are compared up to '**' = '*' (adjacent multi-character wildcards denote the same set)"""
    out = []
    for p in parts:
        p = tup(p)
        if p == ("M",) and out and out[-1] == ("M",):
            continue
        out.append(p)
    return tuple(out)


def value_ref(field, v, k):
    f = field if field is not None else "_"
    t = v[0]
    if t == "exp":
        return ["or", [value_ref(field, x, k) for x in v[1]]]
    if t == "str":
        return ["atom", ("match", f, norm(v[1]))]
    if t == "cstr":
        return ["atom", ("cmatch", f, norm(v[1]))]
    if t == "num":
        return ["atom", ("eq", f, v[1])]
    if t == "tspart":
        return ["atom", ("tspart", f, v[1], v[2])]
    if t == "bool":
        return ["atom", ("eq", f, "true" if v[1] else "false")]
    if t == "null":
        return ["atom", ("null", f)]
    if t == "exists":
        return ["atom", ("exists", f)] if v[1] else ["not", ["atom", ("exists", f)]]
    if t == "re":
        return ["atom", ("re", f, v[1], tuple(v[2]))]
    if t == "cidr":
        if k["cidr_native"]:
            return ["atom", ("cidr", f, v[1])]
        return ["or", [["atom", ("match", f, norm(p))] for p in v[2]]]
    if t == "cmp":
        return ["atom", ("cmp", f, v[1], v[2])]
    if t == "cmp_ts":
        return ["atom", ("cmp_ts", f, v[1], v[2], v[3])]
    if t == "fieldref":
        return ["atom", ("fieldref", f, v[1], v[2], v[3])]
    if t == "qx":
        return ["atom", ("qx", f, v[1])]
    return ["atom", ("other", f, json.dumps(v))]


def det_ref(d, k):
    if "det" in d:
        args = [det_ref(x, k) for x in d["det"]]
        return [d["link"], args]
    if len(d["values"]) == 0:
        e = ["atom", ("null", d["field"] if d["field"] is not None else "_")]
    else:
        e = [d["vlink"], [value_ref(d["field"], v, k) for v in d["values"]]]
    return ["not", e] if d["neg"] else e


def glob_match(pat, name):
    return re.fullmatch(re.escape(pat).replace("\\*", ".*"), name) is not None


def expr_ref(e, dets, k):
    """None when the expression (or a part of it) has no defined meaning (selector matching nothing)."""
    if e[0] == "id":
        return det_ref(dets[e[1]], k)
    if e[0] == "sel":
        q, pat = e[1], e[2]
        names = [n for n in dets if (pat == "them" or glob_match(pat, n)) and (pat.startswith("_") or not n.startswith("_"))]
        if not names:
            return None
        return ["and" if q == "all" else "or", [det_ref(dets[n], k) for n in names]]
    if e[0] == "not":
        a = expr_ref(e[1], dets, k)
        return None if a is None else ["not", a]
    args = [expr_ref(a, dets, k) for a in e[1]]
    if any(a is None for a in args):
        return None
    return [e[0], args]


# --------------------------------------------------------------------------------------------------
# reader of a quoted literal (suite strop only; whole queries are read inside Coq: Spec/Lex.v, Spec/Atom.v,
# Spec/Query.v)
def dec_str(t):
    if len(t) < 2 or t[0] != '"' or t[-1] != '"':
        return None
    out, i, body = [], 0, t[1:-1]
    while i < len(body):
        c = body[i]
        if c == "\\":
            if i + 1 >= len(body):
                return None
            out.append(("L", body[i + 1])); i += 2; continue
        if c == '"':
            return None
        out.append(("M",) if c == "*" else ("S",) if c == "?" else ("L", c)); i += 1
    return tuple(out)


# --------------------------------------------------------------------------------------------------
# Coq encoders
def c_cfg(k):
    lv = {o: k["prec"].index(o) + 1 for o in ("not", "and", "or")}
    return ("{| lvl := (fun o => match o with ONot => %d%%nat | OAnd => %d%%nat | OOr => %d%%nat end); parenthesize := %s; or_in := %s; "
            "and_in := %s; in_wild := %s; not_eq := %s |}" % (lv["not"], lv["and"], lv["or"], cbool(k["parenthesize"]),
                                                              cbool(k["or_in"]), cbool(k["and_in"]), cbool(k["in_wild"]), cbool(k["not_eq"])))


def c_syntax(k):
    return ("{| s_sep := %s; s_and := %s; s_or := %s; s_not := %s; s_lpar := %s; s_rpar := %s; s_in_pre := %s; "
            "s_in_mid_or := %s; s_in_mid_and := %s; s_in_open := %s; s_list_sep := %s; s_in_close := %s |}" % tuple(
                cstr(x) for x in (k.get("sep", " "), "and", "or", "not", "(", ")", "«", " in ", " contains-all ", "(", ", ", ")»")))


def c_tree(t):
    if t[0] == "and":
        return "(CBin BAnd %s)" % clist(c_tree(a) for a in t[1])
    if t[0] == "or":
        return "(CBin BOr %s)" % clist(c_tree(a) for a in t[1])
    if t[0] == "not":
        return "(CNot %s)" % c_tree(t[1])
    if t[0] == "exp":
        return "(CExp %s)" % clist(c_tree(a) for a in t[1])
    if t[0] == "orfresh":
        return "(COrFresh %d%%nat %s)" % (t[1], clist("(%d%%nat, (%s, %s))" % (a, cbool(s), cbool(n)) for a, s, n in t[2]))
    if t[0] == "notexists":
        return "(CNotExists %d%%nat)" % t[1]
    if t[0] == "atom":
        kd = t[1]
        kind = {"str": lambda: "(KStr %s)" % cbool(kd[1]), "cased": lambda: "(KCased %s)" % cbool(kd[1]),
                "num": lambda: "KNum", "tspart": lambda: "KTsPart", "other": lambda: "KOther"}[kd[0]]()
        return "(CAtom %s %s %s %d%%nat)" % (kind, copt(None if t[2] is None else str(t[2]) + "%nat"), cbool(t[3]), t[4])
    raise ValueError(t[0])


def unforced(t):
    return t[2] if t[0] == "forced" else t


def has_none(t):
    t = unforced(t)
    if t[0] in ("none", "unknown"):
        return True
    if t[0] in ("and", "or", "exp"):
        return any(has_none(a) for a in t[1])
    if t[0] == "not":
        return has_none(t[1])
    return False


def c_ref(e, ids):
    if e[0] == "atom":
        return "(CAtom KOther None false %d%%nat)" % ids.setdefault(e[1], len(ids))
    if e[0] == "not":
        return "(CNot %s)" % c_ref(e[1], ids)
    return "(CBin %s %s)" % ("BAnd" if e[0] == "and" else "BOr", clist(c_ref(a, ids) for a in e[1]))


CMPOPS = {"LT": "CLt", "LTE": "CLte", "GT": "CGt", "GTE": "CGte", "NEQ": "CNeq"}


def c_items(parts):
    out = []
    for p in parts:
        if p[0] == "L":
            out.append("Lit %d" % ord(p[1]))
        elif p[0] == "M":
            out.append("Multi")
        elif p[0] == "S":
            out.append("Single")
        else:
            out.append("Ph %s" % cstr(p[1]))
    return clist(out)


def c_key(t):
    """reference predicate (props/c01.py value_ref) -> Spec.Query.akey"""
    k = t[0]
    f = cstr(t[1])
    if k in ("match", "cmatch"):
        return "YMatch %s %s %s" % (cbool(k == "cmatch"), f, c_items(t[2]))
    if k == "eq":
        return "YTok %s %s" % (f, cstr(str(t[2])))
    if k == "null":
        return "YNull %s" % f
    if k == "exists":
        return "YExists %s" % f
    if k == "re":
        fl = set(t[3])
        return "YRe %s %s %s %s %s" % (f, cstr(t[2]), cbool("i" in fl), cbool("m" in fl), cbool("s" in fl))
    if k == "cidr":
        return "YCidr %s %s" % (f, cstr(t[2]))
    if k == "cmp":
        return "YCmp %s %s %s" % (f, CMPOPS[t[2]], cstr(str(t[3])))
    if k == "cmp_ts":
        return "YCmpTs %s %s %s %s" % (f, CMPOPS[t[2]], cstr(t[3]), cstr(str(t[4])))
    if k == "tspart":
        return "YTs %s %s %s" % (f, cstr(t[2]), cstr(str(t[3])))
    if k == "fieldref":
        return "YFieldRef %s %s %s %s" % (f, cstr(t[2]), cbool(t[3]), cbool(t[4]))
    if k == "qx":
        return "YQx %s %s" % (f, cstr(t[2]))
    return None


def c_rval(v):
    """a value of a detection item (as serialised by impl/c01.py) -> Spec.Ref.rval; None = no reference predicate"""
    t = v[0]
    if t == "exp":
        xs = [c_rval(x) for x in v[1]]
        return None if any(x is None for x in xs) else "RExp %s" % clist("(%s)" % x for x in xs)
    if t in ("str", "cstr"):
        return "RStr %s %s" % (cbool(t == "cstr"), c_items(v[1]))
    if t == "num":
        return "RTok %s" % cstr(str(v[1]))
    if t == "bool":
        return "RTok %s" % cstr("true" if v[1] else "false")
    if t == "null":
        return "RNull"
    if t == "exists":
        return "RExists %s" % cbool(v[1])
    if t == "re":
        fl = set(v[2])
        return "RRe %s %s %s %s" % (cstr(v[1]), cbool("i" in fl), cbool("m" in fl), cbool("s" in fl))
    if t == "cidr":
        return "RCidr %s %s" % (cstr(v[1]), clist(c_items(p) for p in v[2]))
    if t == "cmp":
        return "RCmp %s %s" % (CMPOPS[v[1]], cstr(str(v[2])))
    if t == "cmp_ts":
        return "RCmpTs %s %s %s" % (CMPOPS[v[1]], cstr(v[2]), cstr(str(v[3])))
    if t == "tspart":
        return "RTs %s %s" % (cstr(v[1]), cstr(str(v[2])))
    if t == "fieldref":
        return "RFieldRef %s %s %s" % (cstr(v[1]), cbool(v[2]), cbool(v[3]))
    if t == "qx":
        return "RQx %s" % cstr(v[1])
    return None


def c_rdet(d):
    bop = {"and": "BAnd", "or": "BOr"}
    if "det" in d:
        xs = [c_rdet(x) for x in d["det"]]
        return None if any(x is None for x in xs) else "RDets %s %s" % (bop[d["link"]], clist("(%s)" % x for x in xs))
    vs = [c_rval(v) for v in d["values"]]
    if any(x is None for x in vs):
        return None
    return "RItem %s %s %s %s" % (cstr(d["field"] if d["field"] is not None else "_"), cbool(d["neg"]), bop[d["vlink"]],
                                  clist("(%s)" % x for x in vs))


def c_rexpr(e):
    if e[0] == "id":
        return "(EId %s)" % cstr(e[1])
    if e[0] == "sel":
        return "(ESel %s %s)" % (cbool(e[1] == "all"), cstr(e[2]))
    if e[0] == "not":
        return "(ENot %s)" % c_rexpr(e[1])
    return "(EBin %s %s)" % ("BAnd" if e[0] == "and" else "BOr", clist(c_rexpr(a) for a in e[1]))


def c_keys(ids):
    out = [None] * len(ids)
    for t, i in ids.items():
        out[i] = c_key(t)
    if any(x is None for x in out):
        return None
    return clist(out)


def expand_cases(case, r):
    """one judged case per rule condition"""
    if "exc" in r:
        return []
    out = []
    for cnd, ex in zip(r["conds"], case["exprs"]):
        if "unsupported" in cnd or has_none(cnd["tree"]):
            continue
        ref = expr_ref(ex, r["dets"], case["k"])
        if ref is None:
            continue
        out.append((cnd, ref, ex))
    return out


def ref_counts(e, names, cnt):
    if e[0] == "id":
        cnt[e[1]] = cnt.get(e[1], 0) + 1
    elif e[0] == "sel":
        for n in names:
            if (e[2] == "them" or glob_match(e[2], n)) and (e[2].startswith("_") or not n.startswith("_")):
                cnt[n] = cnt.get(n, 0) + 1
    elif e[0] == "not":
        ref_counts(e[1], names, cnt)
    else:
        for a in e[1]:
            ref_counts(a, names, cnt)
    return cnt


def shared_detection_noteq(case):
    """In not-equals mode the negation of a leaf is decided by walking parent links of the *shared*
    detection objects, so a detection referenced several times takes the polarity of its last
    reference. That aliasing is not modelled: such cases are skipped (and counted)."""
    if not case["k"]["not_eq"]:
        return False
    names = [n for n in case["rule"]["detection"] if n != "condition"]
    return any(v > 1 for ex in case["exprs"] for v in ref_counts(ex, names, {}).values())


def resolve_forced(cnd):
    """Atoms whose negation was decided by parent links that disagree with their position in the tree (a
    detection referenced several times: its objects are shared and the last reference wins) become atoms of their
    own with the text the implementation's decision selects - the faithful model of finding D35."""
    atexts = {i: (a, b) for i, a, b in cnd["atexts"]}
    vtexts = {i: a for i, a in cnd["vtexts"]}
    extra_a, extra_v, nxt = [], [], [max(atexts) + 1 if atexts else 0]

    def variant(a, pn):
        txt = atexts[a][1] if pn else atexts[a][0]
        i = nxt[0]; nxt[0] += 1
        extra_a.append([i, txt, txt])
        if a in vtexts:
            extra_v.append([i, vtexts[a]])
        return i

    def fix(t, pn):
        if t[0] == "atom":
            return ["atom", t[1], t[2], False, variant(t[4], pn)]
        if t[0] == "orfresh":
            return ["orfresh", t[1], [[variant(a, pn), sp, False] for a, sp, _ in t[2]]]
        if t[0] == "exp":
            return ["exp", [fix(a, pn) for a in t[1]]]
        return t

    def walk(t):
        if t[0] in ("and", "or", "exp"):
            return [t[0], [walk(a) for a in t[1]]]
        if t[0] == "not":
            return ["not", walk(t[1])]
        if t[0] == "forced":
            return fix(t[2], t[1])
        return t
    tree = walk(cnd["tree"])
    return dict(cnd, tree=tree, atexts=cnd["atexts"] + extra_a, vtexts=cnd["vtexts"] + extra_v), bool(extra_a)


def struct_to_coq(case, r):
    items = expand_cases(case, r)
    if not items:
        return None
    cnd, ref, ex = items[case.get("ci", 0)] if case.get("ci", 0) < len(items) else items[0]
    cnd, _ = resolve_forced(cnd)
    # the reference meaning itself is computed inside Coq (Spec/Ref.v) from the detections and the expression; the Python
    # copy (expr_ref) only decides which cases are sent: defined meaning, at most 9 distinct predicates
    ids = {}
    c_ref(ref, ids)
    if len(ids) > 9:
        return None
    dets = [(n, c_rdet(d)) for n, d in r["dets"].items()]
    if any(d is None for _, d in dets):
        return None
    k = case["k"]
    return ("{| sc_K := %s; sc_S := %s; sc_tree := %s; sc_atexts := %s; sc_ftexts := %s; sc_vtexts := %s; sc_query := %s; "
            "sc_native_cidr := %s; sc_dets := %s; sc_expr := %s |}" % (
                c_cfg(k), c_syntax(k), c_tree(cnd["tree"]),
                clist("(%d%%nat, (%s, %s))" % (i, cstr(a), cstr(b)) for i, a, b in cnd["atexts"]),
                clist("(%d%%nat, %s)" % (i, cstr(a)) for i, a in cnd["ftexts"]),
                clist("(%d%%nat, %s)" % (i, cstr(a)) for i, a in cnd["vtexts"]),
                cstr(cnd["query"]), cbool(k["cidr_native"]), clist("(%s, %s)" % (cstr(n), d) for n, d in dets), c_rexpr(ex)))


def tree_unsafe_noteq(t, under_not=False):
    """complement of the theorem's domain in not-equals mode"""
    t = unforced(t)
    if t[0] == "not":
        a = unforced(t[1])
        if not (a[0] == "atom" and a[3]):
            return True
        return False
    if t[0] in ("and", "or", "exp"):
        return any(tree_unsafe_noteq(a) for a in t[1])
    if t[0] == "notexists":
        return True
    return False


def tree_has_notexists(t):
    t = unforced(t)
    if t[0] == "notexists":
        return True
    if t[0] in ("and", "or", "exp"):
        return any(tree_has_notexists(a) for a in t[1])
    if t[0] == "not":
        return tree_has_notexists(t[1])
    return False


def known_struct(case, r):
    items = expand_cases(case, r)
    if not items:
        return None
    cnd, _, _ = items[case.get("ci", 0)] if case.get("ci", 0) < len(items) else items[0]
    if case["k"]["not_eq"] and tree_unsafe_noteq(cnd["tree"]):
        return "D5-not-as-not-equals-unsound-negation"
    if case["k"]["not_eq"] and resolve_forced(cnd)[1]:
        return "D35-noteq-shared-detection-last-reference-wins"
    if case["k"]["prec"][0] != "not" and tree_has_notexists(cnd["tree"]):
        return "D29-notexists-rewrite-ungrouped"
    return None


def _spec_items(s):
    """the Sigma specification's reading of a value string (same as Spec/Items.v iparse)"""
    out, i = [], 0
    while i < len(s):
        c = s[i]
        if c == "\\":
            if i + 1 < len(s) and s[i + 1] in "*?\\":
                out.append(["L", s[i + 1]]); i += 2; continue
            out.append(["L", "\\"]); i += 1; continue
        out.append(["M"] if c == "*" else ["S"] if c == "?" else ["L", c]); i += 1
    return out


SIMPLE_MODS = {"contains", "startswith", "endswith", "cased", "all", "neq"}


def expected_item(key, val):
    """Reference reading of a detection item whose modifiers are only contains/startswith/endswith/cased/
    all/neq and whose values are strings: independent of the implementation's modifier classes."""
    parts = key.split("|")
    mods = parts[1:]
    if not set(mods) <= SIMPLE_MODS:
        return None
    vals = val if isinstance(val, list) else [val]
    if not vals or not all(isinstance(v, str) for v in vals):
        return None
    out = []
    for v in vals:
        if v.startswith("QX:"):          # injected by the harness after loading (impl/c01.py): a query expression
            out.append(["qx", v[3:]])
            continue
        items, cased = _spec_items(v), False
        for m in mods:
            if m == "contains":
                if not items or items[0] != ["M"]: items = [["M"]] + items
                if items[-1] != ["M"]: items = items + [["M"]]
            elif m == "startswith":
                if not items or items[-1] != ["M"]: items = items + [["M"]]
            elif m == "endswith":
                if not items or items[0] != ["M"]: items = [["M"]] + items
            elif m == "cased":
                cased = True
        out.append(["cstr" if cased else "str", items])
    return {"field": parts[0] or None, "values": out, "vlink": "and" if "all" in mods else "or", "neg": "neq" in mods}


def check_simple_items(case, r):
    """post-modifier detection items of the implementation vs the reference reading above"""
    for name, d in case["rule"]["detection"].items():
        if name == "condition" or not isinstance(d, dict):
            continue
        got = r["dets"].get(name)
        if not got or "det" not in got or len(got["det"]) != len(d):
            continue
        for (key, val), g in zip(d.items(), got["det"]):
            exp = expected_item(key, val)
            if exp is None or "det" in g:
                continue
            if (g["field"], g["values"], g["vlink"], g["neg"]) != (exp["field"], exp["values"], exp["vlink"], exp["neg"]):
                return f"detection item {name}.{key}: implementation {g} differs from the reference reading {exp}"
    return None


def py_oracle(case, r):
    """the API result (convert_rule) must be the per-condition queries; simple modifier chains must
    produce the values/linking/negation/case-sensitivity the rule document spells"""
    if "exc" in r:
        return None
    bad = check_simple_items(case, r)
    if bad:
        return bad
    if r.get("api") is None:
        return None
    if any("unsupported" in c for c in r["conds"]):
        return None
    qs = [c.get("query") for c in r["conds"] if c.get("query") is not None]
    return None if r["api"] == qs else "convert_rule() result differs from the per-condition conversion"


def stratum(case, r):
    if "exc" in r:
        return "impl-rejects:" + r["exc"]
    if not expand_cases(case, r):
        return "no-reference-or-unsupported"
    if shared_detection_noteq(case):
        return "noteq-shared-detection"
    return "noteq" if case["k"]["not_eq"] else "normal"


def mutate(case, rng):
    out = []
    for _ in range(40):
        c = json.loads(json.dumps(case))
        c["k"] = gen_config(rng)
        c["k"]["not_eq"] = case["k"]["not_eq"]
        out.append(c)
    return out


# ---- string operator selection ----
SOP_ALPHA = ["a", "b", "*", "?", "\\", " "]
def gen_strop(tier, rng):
    ss = ["".join(t) for k in range(0, 5 if tier == "quick" else 6) for t in itertools.product(SOP_ALPHA, repeat=k)]
    if tier == "quick":
        ss = [s for s in ss if len(s) <= 3] + rng.sample([s for s in ss if len(s) > 3], 500)
    out = []
    for s in ss:
        for _ in range(2 if tier == "quick" else 4):
            k = gen_config(rng)
            out.append({"k": k, "s": s})
    return out

def strop_to_coq(c, r):
    k = c["k"]
    K = ("{| has_sw := %s; has_ew := %s; has_ct := %s; has_wm := %s; sw_special := %s; ew_special := %s; ct_special := %s |}"
         % tuple(cbool(x) for x in (k["startswith"], k["endswith"], k["contains"], k["wildmatch"], k["allow_special"], k["allow_special"], k["allow_special"])))
    dec = None
    if "exc" not in r:
        m = re.fullmatch(r"«f( startswith | endswith | contains | match |=)(\".*\")»", r["text"], flags=re.S)
        if m:
            p = dec_str(m.group(2))
            if p is not None:
                op = {" startswith ": "OpStartswith", " endswith ": "OpEndswith", " contains ": "OpContains", " match ": "OpWildMatch", "=": "OpEq"}[m.group(1)]
                items = clist(("Multi" if x == ("M",) else "Single" if x == ("S",) else "(Lit %d)" % ord(x[1])) for x in p)
                dec = f"({op}, {items})"
    return f"({K}, {cstr(c['s'])}, {copt(dec)})"

REQ = ["Base.Chars", "Model.Backend", "Spec.Target", "Spec.Lex", "Spec.Items", "Model.Leaf", "Spec.Query", "Spec.Ref", "Run.C01run"]
from props.c01_leaf import (gen_leaf, leaf_to_coq, stratum_leaf, mutate_leaf, known_leaf, py_oracle_leaf, gen_inlist,
                             inlist_to_coq, stratum_inlist)
REQ_LEAF = ["Base.Chars", "Base.Outcome", "Model.SString", "Model.StrOp", "Model.FieldName", "Model.Leaf", "Spec.Atom", "Run.C01leaf"]
PROPERTY = Property(
    pid="C01", props_file="Props/C01.v",
    suites=[Suite("struct", gen_struct, "run_struct", REQ, "judge_struct", struct_to_coq, known=known_struct,
                  mutate=mutate, py_oracle=py_oracle, stratum=stratum, shard=120),
            Suite("strop", gen_strop, "run_strop", REQ + ["Model.StrOp", "Spec.Items"], "judge_strop", strop_to_coq),
            Suite("leaf", gen_leaf, "run_leaf", REQ_LEAF, "judge_leaf", leaf_to_coq, stratum=stratum_leaf, mutate=mutate_leaf, known=known_leaf, py_oracle=py_oracle_leaf,
                  shard=150),
            Suite("inlist", gen_inlist, "run_inlist", REQ_LEAF + ["Spec.Query"], "judge_inlist", inlist_to_coq, stratum=stratum_inlist,
                  shard=150)],
    rule="random rules (1-4 detections: maps, lists of maps, keyword lists; strings with wildcards/escapes, numbers, bools, null; "
         "modifiers contains/startswith/endswith/all/cased/re/cidr/exists/windash/base64offset/gt/lte/fieldref/neq/minute; conditions "
         "of depth <= 3 with and/or/not/selectors; 1-2 conditions) x random backend configurations (6 precedence orders, parenthesize, "
         "OR/AND-as-in with/without wildcards, not-equals mode, explicit not-exists, native CIDR, presence of startswith/endswith/contains/"
         "wildcard-match/case-sensitive expressions). non-trivial = condition tree of depth >= 2; distinct by case hash. "
         "Truth tables over all 2^n assignments of the (<= 9) atoms are compared inside Coq. Suite leaf: field names (quotes, "
         "escapes, blanks, delimiters, non-ASCII, keywords of the target language) x values of every kind (strings over an "
         "alphabet with wildcards, escapes, quotes, delimiters, operator characters; numbers; booleans; null; regular expressions "
         "with flags; CIDR; comparisons; timestamp parts; exists; field references; unbound values) x verification backend flag "
         "sets incl. pattern-controlled string quoting and overlapping field escape pattern, and the shipped test backend with "
         "attribute variations; both the normal and the negated-template rendering.",
    assumptions=["suite struct takes the text of each leaf from the implementation (the leaf renderers themselves are modelled in "
                 "suite leaf); the implementation's query is read inside Coq - Spec/Lex.v splits it (C01_lex_show, C01_conv_separates, "
                 "C01_leaf_lexical), Spec/Atom.v reads every atom (C01_leaf_faithful), Spec/Query.v identifies an atom with a reference "
                 "predicate by field, match kind and pattern up to '**' = '*', Spec/Target.v parses (C01_structure); the reference "
                 "meaning is computed in Coq (Spec/Ref.v: detection items after modifiers + the condition as written -> boolean "
                 "combination of reference predicates; C01_ref_numbering, C01_ref_valuations); trusted Python on the specification "
                 "side: the term encoders, and a copy of expr_ref that only selects which cases are sent",
                 "oracles of the leaf model: match positions of field_escape_pattern, the field_quote_pattern / str_quote_pattern "
                 "decisions (computed with re in the harness), str() of numbers and networks, Python's \\w on non-ASCII characters",
                 "leaf suite, not modelled: SigmaQueryExpression values, placeholders inside regular expressions, deferred "
                 "expressions, in-list rendering of values (the list syntax itself is in Model/Backend.v)",
                 "the reference meaning starts from the detection items after modifier application (modifiers themselves are C03/C04)",
                 "deferred query parts and None arguments (dropped detection items) are outside the model; such cases are skipped and counted"],
)
