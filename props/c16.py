"""C16: a pipeline document cannot grant itself code execution, file or network access.

Cases = (pipeline document, caller arguments, entry point, environment, placeholders of the converted rule).
The implementation side (impl/c16.py) loads the document through the real entry points inside a scratch tree
with symlinks, converts one rule, and records flags + audit events.  The Coq judge compares with the model
(bit 1) and evaluates the specification on the observation (bit 2)."""
import copy, itertools, json, random, re
from vlib.core import Property, Suite, cstr, clist, cbool, copt, cZ

R = "/$ROOT"
# ---- scratch tree, by construction: path string -> (physical components, loadable as a vars module) ----
VARS_MENU = {
    R + "/allowed/v_in.py": (["$ROOT", "allowed", "v_in.py"], True),
    R + "/allowed/sub/v_sub.py": (["$ROOT", "allowed", "sub", "v_sub.py"], True),
    R + "/allowed/link_out.py": (["$ROOT", "outside", "v_out.py"], True),          # symlink inside -> outside
    R + "/allowed/linkdir/v_out.py": (["$ROOT", "outside", "v_out.py"], True),     # symlinked directory
    R + "/allowed/../outside/v_out.py": (["$ROOT", "outside", "v_out.py"], True),  # dot-dot
    R + "/allowed_evil/v_pfx.py": (["$ROOT", "allowed_evil", "v_pfx.py"], True),   # shares the string prefix
    R + "/outside/v_out.py": (["$ROOT", "outside", "v_out.py"], True),
    R + "/outside/link_in.py": (["$ROOT", "allowed", "v_in.py"], True),            # symlink outside -> inside
    R + "/alias/v_in.py": (["$ROOT", "allowed", "v_in.py"], True),                 # through a symlink to the base
    R + "/pipe/v_pipe.py": (["$ROOT", "pipe", "v_pipe.py"], True),
    R + "/allowed/nonexistent.py": (["$ROOT", "allowed", "nonexistent.py"], False),
    R + "/allowed": (["$ROOT", "allowed"], False),                                 # the base itself (equality branch)
    # around the pipeline file's own directory (pipe/ or pipe/sub/deep/)
    R + "/pipe/sub/deep/v_deep.py": (["$ROOT", "pipe", "sub", "deep", "v_deep.py"], True),
    R + "/pipe/sub/deep/below/v_below.py": (["$ROOT", "pipe", "sub", "deep", "below", "v_below.py"], True),
    R + "/pipe/sub/deep/../../v_pipe.py": (["$ROOT", "pipe", "v_pipe.py"], True),        # above, through ..
    R + "/pipe/sub/deep/link_up.py": (["$ROOT", "pipe", "v_pipe.py"], True),             # symlink to above
    R + "/pipe/link_out.py": (["$ROOT", "outside", "v_out.py"], True),                   # symlink out of pipe/
    R + "/pipe/../outside/v_out.py": (["$ROOT", "outside", "v_out.py"], True),
    R + "/pipealias/v_pipe.py": (["$ROOT", "pipe", "v_pipe.py"], True),
}
EXEC_ID = {"in": ["$ROOT", "allowed", "v_in.py"], "sub": ["$ROOT", "allowed", "sub", "v_sub.py"],
           "pfx": ["$ROOT", "allowed_evil", "v_pfx.py"], "out": ["$ROOT", "outside", "v_out.py"],
           "pipe": ["$ROOT", "pipe", "v_pipe.py"], "deep": ["$ROOT", "pipe", "sub", "deep", "v_deep.py"],
           "below": ["$ROOT", "pipe", "sub", "deep", "below", "v_below.py"]}
BASES_MENU = {
    R + "/allowed": ["$ROOT", "allowed"], R + "/allowed/": ["$ROOT", "allowed"], R + "/alias": ["$ROOT", "allowed"],
    R + "/allowed/sub": ["$ROOT", "allowed", "sub"], R + "/outside": ["$ROOT", "outside"],
    R + "/allow": ["$ROOT", "allow"], "/": [], R + "/pipe": ["$ROOT", "pipe"],
    R + "/allowed/v_in.py": ["$ROOT", "allowed", "v_in.py"], R + "/allowed/linkdir": ["$ROOT", "outside"],
}
SRC_PIPE = R + "/pipe/pipeline.yml"
SRC_DEEP = R + "/pipe/sub/deep/pipeline.yml"
# strings by which a pipeline file is handed to the loader -> physical location
SRC_STRINGS = {
    SRC_PIPE: ["$ROOT", "pipe", "pipeline.yml"],
    SRC_DEEP: ["$ROOT", "pipe", "sub", "deep", "pipeline.yml"],
    R + "/pipealias/pipeline.yml": ["$ROOT", "pipe", "pipeline.yml"],
    R + "/pipe/sub/../pipeline.yml": ["$ROOT", "pipe", "pipeline.yml"],
}
PIPE_DIRS = {"top": R + "/pipe", "deep": R + "/pipe/sub/deep"}
REAL = {k: v[0] for k, v in VARS_MENU.items()}
REAL.update(BASES_MENU)
REAL.update(SRC_STRINGS)
REAL[R + "/pipe/sub/deep"] = ["$ROOT", "pipe", "sub", "deep"]
LOADABLE = [k for k, v in VARS_MENU.items() if v[1]]

FILE_OK = [R + "/src/values_a.txt", R + "/src/values_b.txt"]
FILE_BAD = "/nonexistent_verif/values.txt"
CMD_OK = ["cat " + R + "/src/values_b.txt", ["cat", R + "/src/values_a.txt"], "echo EXTVAL_c1"]
CMD_BAD = ["exit 3"]

OPT_KEYS = ["allow_external_sources", "allow_template_vars", "vars_allowed_paths"]
LOOKALIKE = ["Allow_External_Sources", "allow_external_sources ", "allow-external-sources", "allowexternalsources",
             "ALLOW_TEMPLATE_VARS", "allow_template_var", "vars_allowed_path", "_values_cache", "_filter_pattern",
             "_pipeline", "processing_item", "j2template", "_nested_pipeline", "_allow_external_sources"]
ENV4 = [None, "0", "1", "true"]
ENV_HOSTILE = ["TRUE", "True", "tRuE", "yes", "", " 1", "1 ", "on", "false", "2", "01", "t", "enabled"]
PATHS_ARGS = [None, [R + "/allowed"], [R + "/alias"], [R + "/allowed/"], ["/"], [], [R + "/allow"],
              [R + "/outside", R + "/allowed/sub"], [R + "/allowed/v_in.py"], [R + "/pipe"], [R + "/allowed/linkdir"]]
PHS = [["a"], ["a", "b"], [], ["a", "a"], ["b"]]


# ---------------------------------------------------------------------------------------------
# document builders
def truthy(rng, key):
    if key == "vars_allowed_paths":
        return rng.choice([["/"], [R + "/outside"], [R], ["/", R + "/allowed_evil"], [R + "/allowed"]])
    return rng.choice([True, True, 1, "yes", "true", [1]])


def inject(m, rng, mode):
    """mode: 'none' | 'all' | 'tpl' | 'ext' | 'some' | 'falsy'"""
    if mode == "none":
        return m
    if mode == "lookalike":          # near misses and private / init=False attributes: never accepted as parameters
        for k in rng.sample(LOOKALIKE, rng.randint(1, 2)):
            m[k] = rng.choice([True, ["EXTVAL_smuggled"], "/", 1])
        return m
    if mode in ("tpl", "ext"):      # only the template keys / only the external-source key
        for k in (OPT_KEYS[1:] if mode == "tpl" else OPT_KEYS[:1]):
            m[k] = truthy(rng, k)
        return m
    for k in OPT_KEYS:
        if mode == "all" or (mode == "some" and rng.random() < 0.5):
            m[k] = truthy(rng, k)
        elif mode == "falsy" and rng.random() < 0.7:
            m[k] = rng.choice([False, None, 0, "", []])
    return m


_port = [20000]


def ext_item(rng, kind=None, ok=True):
    kind = kind or rng.choice(["file", "cmd", "cmdlist", "http"])
    if kind == "file":
        it = {"type": "file_placeholders", "path": rng.choice(FILE_OK) if ok else FILE_BAD}
    elif kind == "cmd":
        it = {"type": "command_placeholders", "cmd": rng.choice([c for c in CMD_OK if isinstance(c, str)]) if ok else CMD_BAD[0]}
    elif kind == "cmdlist":
        it = {"type": "command_placeholders", "cmd": ["cat", rng.choice(FILE_OK)] if ok else ["cat", FILE_BAD]}
    else:
        _port[0] = 20000 + (_port[0] - 20000 + 1) % 5000
        it = {"type": "http_placeholders", "url": f"http://127.0.0.1:{_port[0]}/c16"}
    return it


def sel(it, rng):
    r = rng.random()
    if r < 0.25:
        it["include"] = rng.choice([["a"], ["b"], ["a", "b"], ["zz"]])
    elif r < 0.4:
        it["exclude"] = rng.choice([["a"], ["b"], ["zz"]])
    elif r < 0.43:
        it["include"] = ["a"]
        it["exclude"] = ["b"]
    return it


def cond(it, rng):
    r = rng.random()
    if r < 0.12:
        it["rule_conditions"] = [{"type": "logsource", "category": "test"}]
    elif r < 0.24:
        it["rule_conditions"] = [{"type": "logsource", "category": "other"}]
    return it


def tpl(kind, vars_path, rng):
    """kind 'post' | 'fin'"""
    body = "{{ query }}" if kind == "post" else "{{ queries|join(',') }}"
    it = {"type": "template", "template": body + ("{{ mark() }}" if vars_path is not None and vars_path in LOADABLE else "")}
    if vars_path is not None:
        it["vars"] = vars_path
    elif rng.random() < 0.2:
        it["vars"] = None
    return it


HOSTILE_INLINE = {
    "post": ["{{ query.__class__ }}", "{{ cycler.__init__.__globals__.os.popen('echo C16PWN').read() }}",
             "{{ ''.__class__.__mro__[1].__subclasses__() | length }}", "Q{{ query }}{{ pipeline._clear_pipeline() }}",
             "{{ rule.__init__.__globals__ | length }}"],
    "fin": ["{{ queries.__class__ }}", "{{ cycler.__init__.__globals__.os.popen('echo C16PWN').read() }}",
            "{{ ().__class__.__base__.__subclasses__() | length }}", "{{ queries|join(',') }}{{ pipeline._clear_pipeline() }}",
            "{{ lipsum.__globals__.os.system('echo C16PWN') }}"],
}
# templates that try to grant themselves a capability by calling the loaders of the pipeline object in their context with the
# opt-in arguments (defect D36, repaired: on the original code the first one executed the variables file, the second one ran the
# command of the placeholder source when the inner pipeline was applied)
_INNER_VARS = "postprocessing:\n  - type: template\n    template: x\n    vars: " + R + "/outside/v_out.py\n"
_INNER_DICT = "{'postprocessing': [{'type': 'template', 'template': 'x', 'vars': '" + R + "/allowed/v_in.py'}]}"
SELF_GRANT = [
    "{{ pipeline.from_yaml(%r, True) }}" % _INNER_VARS,
    "{{ pipeline.from_dict(" + _INNER_DICT + ", True) }}",
    "{{ pipeline.from_yaml(allow_template_vars=True, processing_pipeline=%r) }}" % _INNER_VARS,
    "{{ pipeline.postprocessing_items[0].from_dict({'type': 'template', 'template': 'x', 'vars': '" + R + "/outside/v_out.py'}, True) }}",
    "{{ pipeline.finalizers[0].from_dict({'type': 'template', 'template': 'x', 'vars': '" + R + "/outside/v_out.py'}, True) }}",
]
HOSTILE_INLINE["post"] += [t + "{{ query }}" for t in SELF_GRANT[:4]]
HOSTILE_INLINE["fin"] += [t + "{{ queries|join(',') }}" for t in SELF_GRANT[:3] + SELF_GRANT[4:]]
TPL_DIR = R + "/tpl"
PATH_TPLS = {"post": ["q.j2", "hostile_q.j2", "hostile_f.j2", "missing.j2"], "fin": ["f.j2", "hostile_f.j2", "missing.j2"]}


def tpl_text(kind, text, vars_path=None):
    it = {"type": "template", "template": text}
    if vars_path is not None:
        it["vars"] = vars_path
    return it


def tpl_path(kind, name, vars_path=None):
    it = {"type": "template", "template": name, "path": TPL_DIR}
    if vars_path is not None:
        it["vars"] = vars_path
    return it


def nest_tr(items):
    return {"type": "nest", "items": items}


def nest_fin(fs):
    return {"type": "nested", "finalizers": fs}


def wrap(item, depth, wrapper, rng, mode):
    for _ in range(depth):
        item = inject(wrapper([item]), rng, mode)
    return item


FILE_ROUTES = ("yaml_src", "resolver", "resolve_file", "resolve_dir")
RESOLVER_ROUTES = ("resolver", "resolve_file", "resolve_dir")


def routes(rng=None):
    """every way a pipeline file reaches the loader: (entry, loc, src string, spec, siblings)"""
    out = []
    for loc in ("top", "deep"):
        for entry in ("yaml_src", "resolver", "resolve_file"):
            out.append((entry, loc, None, None, False))
        for spec in (R + "/pipe", R + "/pipe/", R + "/pipe/*", R + "/pipe//"):
            for sib in (False, True):
                out.append(("resolve_dir", loc, None, spec, sib))
    # the file named through a symlinked directory / a dot-dot path
    for entry in ("yaml_src", "resolver", "resolve_file"):
        out.append((entry, "top", R + "/pipealias/pipeline.yml", None, False))
        out.append((entry, "top", R + "/pipe/sub/../pipeline.yml", None, False))
    out.append(("resolve_dir", "top", R + "/pipealias/pipeline.yml", R + "/pipealias", False))
    out.append(("resolve_dir", "top", R + "/pipealias/pipeline.yml", R + "/pipealias/*", True))
    out.append(("resolve_dir", "deep", None, R + "/pipe/sub", False))
    out.append(("resolve_dir", "deep", None, R + "/pipe/sub/deep/", False))
    return out


# vars paths relative to the pipeline file's directory: class -> candidates per location
VARS_BY_CLASS = {
    "top": {"inside": [R + "/pipe/v_pipe.py", R + "/pipe/sub/deep/v_deep.py", R + "/pipealias/v_pipe.py"],
            "outside": [R + "/outside/v_out.py", R + "/allowed/v_in.py"],
            "above": [R + "/pipe/../outside/v_out.py", R + "/allowed/../outside/v_out.py"],
            "symlinked": [R + "/pipe/link_out.py", R + "/allowed/link_out.py"]},
    "deep": {"inside": [R + "/pipe/sub/deep/v_deep.py", R + "/pipe/sub/deep/below/v_below.py"],
             "outside": [R + "/outside/v_out.py", R + "/allowed/v_in.py"],
             "above": [R + "/pipe/sub/deep/../../v_pipe.py", R + "/pipe/v_pipe.py"],
             "symlinked": [R + "/pipe/sub/deep/link_up.py", R + "/pipe/link_out.py"]},
}


STD_REAL = sorted([k, v] for k, v in REAL.items())


def mk_case(doc, args, entry, env, phs, explicit=False, loc="top", src=None, spec=None, siblings=False):
    c = {"doc": doc, "args": args, "entry": entry, "env": env, "phs": phs}
    if entry in FILE_ROUTES:
        c["loc"] = loc
        c["src"] = src or (SRC_DEEP if loc == "deep" else SRC_PIPE)
        if entry == "resolve_dir":
            c["spec"] = spec or R + "/pipe"
            c["siblings"] = siblings
    if explicit:
        c["real"] = STD_REAL      # carried explicitly: checked against os.path.realpath and against the Coq constant
    return c


def random_doc(rng, mode=None):
    mode = mode or rng.choice(["none", "all", "tpl", "tpl", "ext", "some", "some", "falsy", "lookalike"])
    def tr_item(depth):
        r = rng.random()
        if r < 0.45:
            it = sel(ext_item(rng, ok=rng.random() < 0.85), rng)
        elif r < 0.6:
            it = sel({"type": "wildcard_placeholders"}, rng)
        elif r < 0.68:
            it = {"type": "set_state", "key": "k", "val": rng.choice(["v", 1, True])}
        elif r < 0.9 and depth < 3:
            it = nest_tr([tr_item(depth + 1) for _ in range(rng.randint(0, 2))])
        elif r < 0.93:
            it = {"type": "bogus_type"}
        elif r < 0.96:
            it = {"type": rng.choice(["file_placeholders", "command_placeholders", "http_placeholders"])}   # source missing
        else:
            it = dict(ext_item(rng), unknown_param=1)
        return cond(inject(it, rng, mode), rng)

    def post_item():
        r = rng.random()
        if r < 0.08:
            it = rng.choice([tpl_text("post", rng.choice(HOSTILE_INLINE["post"])), tpl_path("post", rng.choice(PATH_TPLS["post"]))])
        elif r < 0.5:
            it = tpl("post", rng.choice([None, None] + list(VARS_MENU)), rng)
        elif r < 0.7:
            it = {"type": "embed", "prefix": "[", "suffix": "]"}
        elif r < 0.8:
            it = {"type": "simple_template", "template": "S{query}"}
        elif r < 0.88:
            it = {"type": "nest", "items": rng.choice([[], [{"type": "embed", "prefix": "x"}],
                                                       [inject(tpl("post", rng.choice(list(VARS_MENU)), rng), rng, "tpl")],
                                                       [inject(tpl("post", R + "/allowed/v_in.py", rng), rng, mode)]])}
        elif r < 0.94:
            it = {"type": "bogus_type"}
        else:
            it = {"type": "embed", "nonsense": 1}
        return inject(it, rng, mode)

    def fin_item(depth):
        r = rng.random()
        if r < 0.08:
            it = rng.choice([tpl_text("fin", rng.choice(HOSTILE_INLINE["fin"])), tpl_path("fin", rng.choice(PATH_TPLS["fin"]))])
        elif r < 0.45:
            it = tpl("fin", rng.choice([None] + list(VARS_MENU)), rng)
        elif r < 0.6:
            it = {"type": "concat", "separator": ";"}
        elif r < 0.68:
            it = {"type": rng.choice(["json", "yaml"])}
        elif r < 0.9 and depth < 3:
            it = nest_fin([fin_item(depth + 1) for _ in range(rng.randint(0, 2))])
        elif r < 0.95:
            it = {"type": "bogus_type"}
        else:
            it = {"type": "concat", "nonsense": 1}
        return inject(it, rng, mode)

    doc = {}
    if rng.random() < 0.85:
        doc["transformations"] = [tr_item(0) for _ in range(rng.randint(0, 3))]
    if rng.random() < 0.6:
        doc["postprocessing"] = [post_item() for _ in range(rng.randint(0, 2))]
    if rng.random() < 0.6:
        doc["finalizers"] = [fin_item(0) for _ in range(rng.randint(0, 2))]
    if rng.random() < 0.3:
        doc["name"] = "p"
        doc["priority"] = 10
    if rng.random() < 0.1:
        inject(doc, rng, "some")       # at the top level the keys are unknown keys
    return doc


def rand_env(rng):
    def one():
        r = rng.random()
        return rng.choice(ENV4) if r < 0.75 else rng.choice(ENV_HOSTILE)
    return {"ext": one(), "tv": one()}


def rand_args(rng):
    return {"ext": rng.random() < 0.4, "tv": rng.random() < 0.5, "paths": rng.choice(PATHS_ARGS)}


def gen(tier, rng):
    quick = tier == "quick"
    out = [mk_case({"transformations": [{"type": "wildcard_placeholders"}]}, {"ext": False, "tv": False, "paths": None},
                   "dict", {"ext": None, "tv": None}, ["a"], explicit=True)]
    envs_ext = [{"ext": e, "tv": None} for e in ENV4]
    envs_tv = [{"ext": None, "tv": e} for e in ENV4]
    # ---- A: external-source item x nesting depth x smuggled keys x caller opt-in x environment ----
    for kind in ["file", "cmd", "cmdlist", "http"]:
        for depth in range(0, 4):
            for mode in ["none", "all"]:
                for ext in [False, True]:
                    for env in envs_ext:
                        item = inject(ext_item(rng, kind), rng, mode)
                        doc = {"transformations": [wrap(item, depth, nest_tr, rng, mode)]}
                        entry = rng.choice(["dict", "yaml", "yaml_src"]) if not (quick and depth > 1) else "dict"
                        out.append(mk_case(doc, {"ext": ext, "tv": False, "paths": None}, entry, env, ["a"]))
    # the resolver has no opt-in arguments at all
    for kind in ["file", "cmd", "http"]:
        for env in envs_ext:
            doc = {"transformations": [inject(ext_item(rng, kind), rng, "all")]}
            out.append(mk_case(doc, {"ext": False, "tv": False, "paths": None}, "resolver", env, ["a"]))
    # ---- B: template item with vars x position x depth x smuggled keys x caller opt-in x paths x environment ----
    vars_paths = list(VARS_MENU)
    slots = [("post", 0), ("fin", 0), ("fin", 1), ("fin", 2), ("fin", 3)]
    for slot, depth in slots:
        for vp in vars_paths:
            for mode in ["none", "all", "tpl"]:
                combos = list(itertools.product([False, True], PATHS_ARGS, envs_tv))
                if quick:
                    combos = rng.sample(combos, 6 if depth < 2 else 3)
                elif depth >= 1:
                    combos = rng.sample(combos, 30)
                for tv, paths, env in combos:
                    item = inject(tpl(slot, vp, rng), rng, mode)
                    if slot == "post":
                        doc = {"transformations": [{"type": "wildcard_placeholders"}], "postprocessing": [item]}
                    else:
                        doc = {"transformations": [{"type": "wildcard_placeholders"}],
                               "finalizers": [wrap(item, depth, nest_fin, rng, mode)]}
                    entry = rng.choice(["dict", "yaml", "yaml_src", "yaml_src", "resolver"])
                    out.append(mk_case(doc, {"ext": False, "tv": tv, "paths": paths}, entry, env, ["a"]))
    # ---- B2: template items inside a nested post-processing item (rejected today whatever they contain) ----
    for vp in vars_paths:
        for mode in ["none", "tpl", "all"]:
            inner = inject(tpl("post", vp, rng), rng, mode)
            doc = {"transformations": [{"type": "wildcard_placeholders"}],
                   "postprocessing": [inject({"type": "nest", "items": [inner]}, rng, mode)]}
            out.append(mk_case(doc, {"ext": False, "tv": rng.random() < 0.3, "paths": rng.choice(PATHS_ARGS)},
                               rng.choice(["dict", "yaml_src"]), rng.choice(envs_tv), ["a"]))
    # ---- R: how the pipeline file reaches the loader x where the vars file lies relative to it x environment ----
    all_routes = routes()
    slots3 = [("post", 0), ("fin", 0), ("fin", 1)]
    for (entry, loc, src, spec, sib) in all_routes:
        for cls, cands in VARS_BY_CLASS[loc].items():
            for ev in (ENV4 if not quick else [None, "1", rng.choice(["0", "true"])]):
                for slot, depth in (slots3 if not quick else [rng.choice(slots3)]):
                    vp = rng.choice(cands)
                    mode = rng.choice(["none", "tpl", "tpl"])
                    item = inject(tpl(slot, vp, rng), rng, mode)
                    doc = {"transformations": [{"type": "wildcard_placeholders"}]}
                    if slot == "post":
                        doc["postprocessing"] = [item]
                    else:
                        doc["finalizers"] = [wrap(item, depth, nest_fin, rng, mode)]
                    if rng.random() < 0.3:
                        doc["priority"] = rng.choice([0, 10])
                    a = {"ext": False, "tv": entry == "yaml_src" and rng.random() < 0.4,
                         "paths": rng.choice([None, None, None, [R + "/allowed"], [R + "/pipe"]]) if entry == "yaml_src" else None}
                    out.append(mk_case(doc, a, entry, {"ext": None, "tv": ev}, ["a"], loc=loc, src=src, spec=spec, siblings=sib))
    # the same document through every route without a file (from_dict, from_yaml without source_path)
    for entry in ("dict", "yaml"):
        for cls, cands in VARS_BY_CLASS["top"].items():
            for ev in ENV4:
                doc = {"transformations": [{"type": "wildcard_placeholders"}], "finalizers": [tpl("fin", rng.choice(cands), rng)]}
                out.append(mk_case(doc, {"ext": False, "tv": False, "paths": None}, entry, {"ext": None, "tv": ev}, ["a"]))
    # external sources through the file routes (no opt-in argument exists on the resolver)
    for (entry, loc, src, spec, sib) in all_routes:
        if quick and rng.random() < 0.5:
            continue
        doc = {"transformations": [inject(ext_item(rng), rng, rng.choice(["none", "all"]))]}
        out.append(mk_case(doc, {"ext": entry == "yaml_src" and rng.random() < 0.5, "tv": False, "paths": None}, entry,
                           {"ext": rng.choice(ENV4), "tv": None}, ["a"], loc=loc, src=src, spec=spec, siblings=sib))
    # ---- T: what a template may evaluate: hostile inline texts and file templates at every template position ----
    for slot, depth in slots:
        variants = [("inline", t) for t in HOSTILE_INLINE[slot]] + [("path", n) for n in PATH_TPLS[slot]]
        for kind, t in variants:
            for mode in ["none", "tpl"]:
                for ev in ([None, "1"] if not quick else [None]):
                    for vp in ([None, R + "/allowed/v_in.py"] if not (quick and depth > 1) else [None]):
                        item = tpl_text(slot, t, vp) if kind == "inline" else tpl_path(slot, t, vp)
                        item = inject(item, rng, mode)
                        doc = {"transformations": [{"type": "wildcard_placeholders"}]}
                        if slot == "post":
                            doc["postprocessing"] = [item]
                        else:
                            doc["finalizers"] = [wrap(item, depth, nest_fin, rng, mode)]
                        e, loc, src, spec, sib = rng.choice([("dict", "top", None, None, False), ("yaml", "top", None, None, False)] + all_routes[:8])
                        out.append(mk_case(doc, {"ext": False, "tv": False, "paths": None}, e, {"ext": None, "tv": ev}, ["a"],
                                           loc=loc, src=src, spec=spec, siblings=sib))
    # ---- C: hostile environment values for both gates ----
    for v in ENV_HOSTILE + ENV4:
        doc = {"transformations": [ext_item(rng, "file")]}
        out.append(mk_case(doc, {"ext": False, "tv": False, "paths": None}, "dict", {"ext": v, "tv": None}, ["a"]))
        doc = {"postprocessing": [tpl("post", R + "/allowed/v_in.py", rng)], "transformations": [{"type": "wildcard_placeholders"}]}
        out.append(mk_case(doc, {"ext": False, "tv": False, "paths": None}, "dict", {"ext": None, "tv": v}, ["a"]))
    # ---- C2: look-alike keys and private attributes on every item kind ----
    for k in LOOKALIKE:
        for it, where in [(ext_item(rng, "file"), "t"), (ext_item(rng, "cmd"), "t"), (tpl("post", R + "/allowed/v_in.py", rng), "p"),
                          (tpl("fin", R + "/allowed/v_in.py", rng), "f"), (tpl("fin", R + "/allowed/v_in.py", rng), "fn")]:
            it = dict(it)
            it[k] = rng.choice([True, ["EXTVAL_smuggled"], 1])
            doc = {"transformations": [it] if where == "t" else [{"type": "wildcard_placeholders"}]}
            if where == "p":
                doc["postprocessing"] = [it]
            elif where == "f":
                doc["finalizers"] = [it]
            elif where == "fn":
                doc["finalizers"] = [nest_fin([it])]
            out.append(mk_case(doc, {"ext": False, "tv": False, "paths": None}, "dict", {"ext": None, "tv": None}, ["a"]))
    # ---- D: laziness ("fails when first needed"): selectors, conditions, consumed placeholders ----
    for _ in range(150 if quick else 1500):
        items = []
        for _ in range(rng.randint(1, 4)):
            r = rng.random()
            it = sel(ext_item(rng, ok=rng.random() < 0.8), rng) if r < 0.6 else sel({"type": "wildcard_placeholders"}, rng)
            it = cond(it, rng)
            if rng.random() < 0.3:
                it = nest_tr([it])
            items.append(it)
        out.append(mk_case({"transformations": items}, {"ext": rng.random() < 0.5, "tv": False, "paths": None},
                           "dict", {"ext": rng.choice(ENV4), "tv": None}, rng.choice(PHS)))
    # ---- E: malformed shapes around the smuggling places ----
    shapes = [None, 5, "ab", [], {}, [None], ["x"], [[1]], [{}], [{"type": ["file_placeholders"]}], [{"type": None}], {"type": "nest"}]
    for k in ["transformations", "postprocessing", "finalizers"]:
        for sh in shapes:
            out.append(mk_case({k: sh}, {"ext": True, "tv": True, "paths": None}, "dict", {"ext": "1", "tv": "1"}, ["a"]))
    for sh in shapes:
        out.append(mk_case({"transformations": [{"type": "nest", "items": sh}]}, {"ext": True, "tv": False, "paths": None},
                           "dict", {"ext": None, "tv": None}, []))
        out.append(mk_case({"finalizers": [{"type": "nested", "finalizers": sh}]}, {"ext": False, "tv": True, "paths": None},
                           "dict", {"ext": None, "tv": None}, []))
        out.append(mk_case({"postprocessing": [{"type": "nest", "items": sh}]}, {"ext": False, "tv": True, "paths": None},
                           "dict", {"ext": None, "tv": None}, []))
    for top in [None, 5, "x", [], {"allow_external_sources": True}, {"allow_template_vars": True, "transformations": []}]:
        out.append(mk_case(top, {"ext": False, "tv": False, "paths": None}, "dict", {"ext": None, "tv": None}, []))
    # ---- F: random documents ----
    for _ in range(900 if quick else 14000):
        entry, loc, src, spec, sib = rng.choice([("dict", "top", None, None, False)] * 8 + [("yaml", "top", None, None, False)] * 4 + all_routes)
        out.append(mk_case(random_doc(rng), rand_args(rng), entry, rand_env(rng), rng.choice(PHS),
                           loc=loc, src=src, spec=spec, siblings=sib))
    return out


# ---------------------------------------------------------------------------------------------
# encoding into Coq
KNOWN = {"type": "k_type", "items": "k_items", "allow_template_vars": "k_tv", "vars_allowed_paths": "k_ap",
         "allow_external_sources": "k_ext", "vars": "k_vars", "transformations": "k_transformations",
         "postprocessing": "k_postprocessing", "finalizers": "k_finalizers", "template": "k_template", "path": "k_path",
         "include": "k_include", "exclude": "k_exclude", "url": "k_url", "cmd": "k_cmd", "rule_conditions": "k_rule_conditions",
         "file_placeholders": "t_file", "http_placeholders": "t_http", "command_placeholders": "t_cmd",
         "wildcard_placeholders": "t_wild", "set_state": "t_set_state", "nest": "t_nest", "nested": "t_nested"}
_SAFE = re.compile(r"^[A-Za-z0-9_ /$.:,;{}()|\[\]=+\-?*<>!@#%^&']*$")


def S(s):
    if s in KNOWN:
        return KNOWN[s]
    if _SAFE.match(s):
        return f'(lit "{s}")'
    return cstr(s)


def yv(x):
    if x is None:
        return "YNull"
    if isinstance(x, bool):
        return f"(YBool {cbool(x)})"
    if isinstance(x, int):
        return f"(YInt {cZ(x)})"
    if isinstance(x, str):
        return f"(YStr {S(x)})"
    if isinstance(x, list):
        return "(YList " + clist(yv(i) for i in x) + ")"
    if isinstance(x, dict):
        return "(YMap " + clist(f"({S(str(k))}, {yv(v)})" for k, v in x.items()) + ")"
    raise ValueError(x)


def strs(l):
    return clist(S(x) for x in l)


def c_args(a):
    return f"{{| a_ext := {cbool(a['ext'])}; a_tv := {cbool(a['tv'])}; a_ap := {copt(strs(a['paths']) if a['paths'] is not None else None)} |}}"


def spec_args(case):
    """what the property counts as granted by the caller / as base directories in force: every route on which the
    pipeline comes from a file puts the directory of that file in force unless the caller named directories"""
    a = case["args"]
    if case["entry"] in RESOLVER_ROUTES:
        ext, tv, paths = False, False, None
    else:
        ext, tv, paths = a["ext"], a["tv"], a["paths"]
    if paths is None and case["entry"] in FILE_ROUTES:
        paths = [PIPE_DIRS[case.get("loc", "top")]]      # physical directory of the pipeline file
    return {"ext": ext, "tv": tv, "paths": paths}


def find_all(x, key, acc):
    if isinstance(x, dict):
        for k, v in x.items():
            if k == key:
                acc.append(v)
            find_all(v, key, acc)
    elif isinstance(x, list):
        for i in x:
            find_all(i, key, acc)
    return acc


def c_source(kind, src):
    if kind == "file":
        return f"(SFile {S(src)})"
    if kind == "http":
        return f"(SHttp {S(src)})"
    if kind == "cmd":
        return f"(SCmd true [{S(src)}])"
    return f"(SCmd false {strs(src)})"


def c_onode(n):
    if n[0] == "ext":
        kind, src, flag = n[1], n[2], n[3]
        if kind == "cmd" and src.startswith("["):
            import ast
            return f"(OExt {c_source('cmdlist', ast.literal_eval(src))} {cbool(flag)})"
        return f"(OExt {c_source(kind, src)} {cbool(flag)})"
    if n[0] == "tpl":
        ap = n[3]
        return f"(OTpl {copt(S(n[1]) if n[1] is not None else None)} {cbool(n[2])} {copt(strs(ap) if ap is not None else None)})"
    if n[0] == "nest":
        return "(ONest " + clist(c_onode(c) for c in n[1]) + ")"
    return "OPlain"


def c_tree(t):
    if t is None:
        return "None"
    return ("(Some {| o_items := " + clist(c_onode(n) for n in t["items"]) + "; o_post := " + clist(c_onode(n) for n in t["post"])
            + "; o_fin := " + clist(c_onode(n) for n in t["fin"]) + " |})")


def c_class(r):
    if r is None:
        return None
    if r.get("ok"):
        return 0
    if r.get("security"):
        return 1
    if r.get("sigma"):
        return 2
    return 3


def c_effect(e, urls):
    kind = e[1]
    if kind == "exec":
        return f"(EExec {strs(EXEC_ID.get(e[2], ['?', str(e[2])]))})"
    if kind == "read":
        return f"(ERead {S(e[2])})"
    if kind == "run":
        a = e[2]
        if isinstance(a, list) and a[:2] == ["/bin/sh", "-c"] and len(a) == 3:
            return f"(ERun true [{S(a[2])}])"
        return f"(ERun false {strs(a if isinstance(a, list) else [a])})"
    if kind == "net":
        for u in urls:
            if isinstance(u, str) and f"//{e[2]}:{e[3]}/" in u:
                return f"(ENet {S(u)})"
        return f"(ENet {S('?' + str(e[2]) + ':' + str(e[3]))})"
    raise ValueError(e)


def fetch_ok_sources(doc):
    ok = []
    for p in set(x for x in find_all(doc, "path", []) if isinstance(x, str)):
        if p in FILE_OK:
            ok.append(c_source("file", p))
    for c in find_all(doc, "cmd", []):
        if isinstance(c, str) and c in CMD_OK:
            ok.append(c_source("cmd", c))
        if isinstance(c, list) and len(c) == 2 and c[0] == "cat" and c[1] in FILE_OK:
            ok.append(c_source("cmdlist", c))
    return ok


def to_coq(case, r):
    if not isinstance(r, dict) or "load" not in r:
        return None      # harness failure: reported by the runner
    doc = case["doc"]
    urls = find_all(doc, "url", [])
    entry = {"dict": 0, "yaml": 1, "yaml_src": 2, "resolver": 3, "resolve_file": 3, "resolve_dir": 3}[case["entry"]]
    extra = 1 if case.get("siblings") else 0      # the sibling file with one set_state item, merged after the document
    tl = [c_effect(e, urls) for e in r["trace"] if e[0] == "load"]
    tc = [c_effect(e, urls) for e in r["trace"] if e[0] == "conv"]
    conv = c_class(r["conv"])
    if "real" in case:
        real, loadable = clist(f"({S(k)}, {strs(v)})" for k, v in case["real"]), strs(LOADABLE)
    else:
        real, loadable = "std_real", "std_loadable"
    fields = [
        f"c_env_ext := {copt(S(case['env']['ext']) if case['env']['ext'] is not None else None)}",
        f"c_env_tv := {copt(S(case['env']['tv']) if case['env']['tv'] is not None else None)}",
        f"c_real := {real}",
        f"c_loadable := {loadable}",
        f"c_fetch_ok := {clist(fetch_ok_sources(doc))}",
        f"c_doc := {yv(doc)}",
        f"c_args := {c_args(case['args'])}",
        f"c_entry := {entry}",
        f"c_src := {S(case.get('src') or SRC_PIPE)}",
        f"c_extra := {extra}%nat",
        f"c_phs := {strs(case['phs'])}",
        f"c_sargs := {c_args(spec_args(case))}",
        f"i_load := {c_class(r['load'])}",
        f"i_tree := {c_tree(r['tree'])}",
        f"i_conv := {copt(str(conv) if conv is not None else None)}",
        f"i_trace_load := {clist(tl)}",
        f"i_trace_conv := {clist(tc)}",
        f"i_leak := {cbool(r['leak'])}",
        f"i_unsandboxed := {cbool(bool(r.get('unsandboxed')))}",
    ]
    return "{| " + "; ".join(fields) + " |}"


def py_oracle(case, r):
    """second, Python-side reading of the same observation: audit events that the trace does not carry
    (open / exec of a python file below the scratch root) must not occur without a grant either"""
    if not isinstance(r, dict) or "side" not in r:
        return "implementation harness failed: " + json.dumps(r)[:300]
    sa = spec_args(case)
    tv_grant = sa["tv"] or (case["env"]["tv"] or "").lower() in ("1", "true")
    for e in r["side"]:
        if e[1] in ("open", "execaudit") and e[2].endswith(".py") and not tv_grant:
            return f"vars file touched without a grant: {e}"
    return None


def stratum(case, r):
    if not isinstance(r, dict) or "load" not in r:
        return "harness-error"
    if r["load"].get("ok"):
        c = r["conv"] or {}
        return "load-ok/" + ("conv-ok" if c.get("ok") else "conv-security" if c.get("security") else "conv-error")
    return "load-security" if r["load"].get("security") else "load-sigma" if r["load"].get("sigma") else "load-crash"


def mutate(case, rng):
    out = []
    for _ in range(40):
        c = copy.deepcopy(case)
        r = rng.random()
        if r < 0.3:
            c["args"] = {"ext": False, "tv": False, "paths": c["args"]["paths"]}
        elif r < 0.5:
            c["env"] = {"ext": None, "tv": None}
        elif r < 0.7:
            e, loc, src, spec, sib = rng.choice(routes())
            c = mk_case(c["doc"], c["args"], e, c["env"], c["phs"], loc=loc, src=src, spec=spec, siblings=sib)
        else:
            c["args"]["paths"] = rng.choice(PATHS_ARGS)
        if rng.random() < 0.5:
            c["args"] = {"ext": False, "tv": False, "paths": c["args"]["paths"]}
            c["env"] = {"ext": None, "tv": None}
        out.append(c)
    return out


REQ = ["Base.Chars", "Base.Outcome", "Model.Security", "Spec.Security", "Run.C16run"]
SUITE = Suite("caps", gen, "run_case", REQ, "judge", to_coq, mutate=mutate, py_oracle=py_oracle, stratum=stratum, shard=150)
SUITE.model_expr = "model_view"      # printed by ./check C16 --replay
PROPERTY = Property(
    pid="C16", props_file="Props/C16.v",
    suites=[SUITE],
    rule="pipeline documents with allow_external_sources / allow_template_vars / vars_allowed_paths injected (truthy, falsy, absent) "
         "at the top level, on transformation, post-processing and finalizer items and on nested items of depth <= 3; "
         "x {file, command (string and argv), http} placeholder sources and template items with a vars file "
         "x caller arguments on/off, 11 choices of allowed base directories x environment {unset,0,1,true} + 13 hostile values "
         "x vars paths inside / in a subdirectory / outside / symlinked file / symlinked directory / dot-dot / prefix-sharing sibling / "
         "through an alias of the base / missing x every route to the loader: from_dict, from_yaml, from_yaml(source_path), resolve_pipeline(file), "
         "resolver.resolve([file]) and resolver.resolve([dir | dir/ | dir/* | symlinked dir]) with the file at the top or two levels down and with sibling "
         "pipeline files, crossed with vars files inside / outside / above (..) / symlinked out of the pipeline file's own directory; "
         "exhaustive over (item kind x depth x injection x opt-in x env) and sampled over (vars path x base directories), plus random documents; "
         "effects observed with sys.addaudithook (subprocess.Popen, os.system, open, socket.*, exec) in the implementation process; "
         "network refused inside the hook. non-trivial = a smuggled key is present, or a gate fired, or an effect happened",
    assumptions=[
        "the audit hook sees every process / socket / open / exec event CPython raises; effects of C extensions that bypass audit events are invisible",
        "realpath of the scratch tree is given by construction (checked against os.path.realpath once per process)",
        "requests / subprocess / Jinja2 / importlib are outside the model: only the gates in front of them are modelled",
        "rule conditions are modelled for the logsource-category shape only; ill-typed parameter values (non-string path/vars/template) are outside the modelled domain",
    ],
)
