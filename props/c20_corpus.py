"""Corpus of the whole-process check of C20: rule streams (rules, correlation rules, filters) x pipelines
x validator configurations.  Hand-made entries for every mechanism named in the property (1:n field
mappings, nested pipelines merging tracking sets, regex flag sets, add_condition, filters, validators,
failing rules whose error text is recorded) and generated combinations."""
import re

RID = ["5013332f-8a70-4a04-bcc1-06a98a2cca2e", "6f3e2987-db24-4c78-a860-b4f4095a7095",
       "0e95725d-7320-415d-80f7-004da920fc11", "9a5b2e7c-1d3f-4f60-8c2b-7d1e5a4b3c21"]


def rule(title, det, rid=None, extra=""):
    head = f"title: {title}\n" + (f"id: {rid}\n" if rid else "") + "status: test\nlogsource:\n  category: process_creation\n  product: windows\n"
    return head + extra + "detection:\n" + "".join("  " + l + "\n" for l in det.strip("\n").split("\n"))


RULES = {
    "simple": rule("Simple", "sel:\n  CommandLine: test\n  Image|endswith: '\\cmd.exe'\ncondition: sel", RID[0]),
    "multi_fields": rule("Multi fields", """
sel:
  fieldA: valueA
  fieldB: [v1, v2, v3]
  fieldC|contains: x
  fieldD|startswith: 'C:\\'
  fieldE: 1
flt:
  fieldF: y
  fieldG|endswith: z
condition: sel and not flt""", RID[1]),
    "regex_flags": rule("Regex flags", """
sel:
  f1|re|s|i|m: 'a.*b'
  f2|re|m|i: 'x+y'
  f3|re|i: 'Z'
  f4|re|s|m: 'q/r'
  f5|re: plain
condition: sel""", RID[2]),
    "selectors": rule("Selectors", """
sel_a: {a: 1}
sel_b: {b: 2}
sel_c: {c|contains: three}
other: {d: 4}
flt_x: {e: 5}
flt_y: {f: 6}
condition: (1 of sel_* or other) and not all of flt_* """, RID[3]),
    "them": rule("Them", "s1: {a: 1}\ns2: {b: 2}\ns3: {c: 3}\ncondition: 1 of them"),
    "keywords": rule("Keywords", "kw:\n  - alpha\n  - beta\n  - 'gam ma'\nsel: {a|contains|all: [x, y]}\ncondition: kw or sel"),
    "expansions": rule("Expansions", "sel:\n  cl|windash|contains: ' -x'\n  b64|base64offset|contains: secret\n  ip|cidr: 10.0.0.0/7\ncondition: sel"),
    "null_bool": rule("Null and bool", "sel: {a: null, b: true, c|exists: true, d|fieldref: e, n|gte: 5}\ncondition: sel"),
    "placeholder": rule("Placeholder", "sel: {user|expand: '%admins%', path|expand: 'C:\\%dir%\\x'}\ncondition: sel"),
    "unicode": rule("Unicode é", "sel: {'fé': 'vä', 'Ω': ['x', 'ß']}\ncondition: sel"),
    "many_fields": rule("Many fields", "sel:\n" + "".join(f"  fld{i:02d}: v{i}\n" for i in range(24)) + "condition: sel"),
    "two_conditions": rule("Two conditions", "a: {x: 1}\nb: {y: 2}\ncondition:\n  - a\n  - a and not b"),
    # failing rules: the error text is part of the output
    "bad_modifier": rule("Bad modifier", "sel: {a|nosuchmodifier: 1}\ncondition: sel"),
    "bad_condition": rule("Bad condition", "sel: {a: 1}\ncondition: sel and"),
    "undefined": rule("Undefined detection", "sel: {a: 1}\ncondition: sel and nosuch"),
    "bad_regex": rule("Bad regex", "sel: {a|re: '(x'}\ncondition: sel"),
    "no_condition": rule("No condition", "sel: {a: 1}"),
    "bad_status": "title: Bad status\nstatus: nosuch\nlevel: nosuch\nlogsource: {category: x}\ndetection:\n  sel: {a: 1}\n  condition: sel\n",
    "dangling": rule("Dangling", "sel: {a: 1}\nu1: {b: 1}\nu2: {c: 1}\nu3: {d: 1}\nzz: {e: 1}\nA0: {f: 1}\ncondition: sel"),
    "mods_twice": rule("Modifiers twice", "sel: {a|contains|contains: x, b|base64|base64: y, c|all: [p], d|re|contains: z}\ncondition: sel"),
    "underscore_sel": rule("Underscore selector", "sel: {a: 1}\n_x: {b: 2}\ncondition: sel or 1 of _*a"),
}

# rules that use a field as detection item field and in field references / the fields list (field names are tracked
# per pipeline through them)
RULES["fieldref"] = rule("Fieldref", """
selection:
  Image|endswith: cmd.exe
  OriginalFileName|fieldref: Image
condition: selection""", None, extra="name: nested_one_to_many\n")
RULES["fieldref_many"] = rule("Fieldref many", """
sel:
  Image|endswith: cmd.exe
  ParentImage|fieldref|endswith: Image
  User|fieldref: TargetUser
  CommandLine|contains: x
flt:
  TargetUser|fieldref: User
  Image: y
condition: sel and not flt""", None, extra="fields: [Image, User, CommandLine, TargetUser]\n")

CORRELATION = {
    "corr_count": RULES["simple"] + "---\n" + """title: Count
id: 0e95725d-7320-415d-80f7-004da920fc12
correlation:
  type: event_count
  rules: [5013332f-8a70-4a04-bcc1-06a98a2cca2e]
  group-by: [User, ComputerName, Image]
  timespan: 5m
  condition: {gte: 10}
""",
    "corr_bad_items": RULES["simple"] + "---\n" + """title: Bad correlation condition
correlation:
  type: event_count
  rules: [5013332f-8a70-4a04-bcc1-06a98a2cca2e]
  group-by: [User]
  timespan: 5m
  condition: {gte: 10, zeta: 1, alpha: 2, mid: 3, Beta: 4, omega: 5}
""",
    "corr_value_count": RULES["simple"] + "---\n" + RULES["multi_fields"] + "---\n" + """title: Value count
correlation:
  type: value_count
  rules: [5013332f-8a70-4a04-bcc1-06a98a2cca2e, 6f3e2987-db24-4c78-a860-b4f4095a7095]
  group-by: [fieldA, CommandLine]
  timespan: 1h
  condition: {field: fieldB, lt: 3}
  aliases:
    who: {5013332f-8a70-4a04-bcc1-06a98a2cca2e: CommandLine, 6f3e2987-db24-4c78-a860-b4f4095a7095: fieldA}
""",
}


# correlation condition dicts: null-valued operators, several operators, operator + field, unknown keys
CORR_CONDITIONS = {
    "null_second": "{gte: 2, lte: }", "null_first": "{lte: ~, gte: 2}", "null_eq": "{eq: null, gt: 7}",
    "two_ops": "{gte: 2, lte: 5}", "three_ops_nulls": "{gte: , lte: , eq: 4}", "only_null": "{gte: null}",
    "all_null": "{lt: ~, gt: ~}", "op_field": "{gte: 2, field: User}", "null_op_field": "{neq: ~, lt: 3, field: User}",
    "unknown": "{gt: 1, foo: 2, Bar: 3}", "unknown_null": "{gt: 1, lte: ~, zz: 3, aa: 4}", "bad_count": "{eq: x}",
    "percentile": "{lt: 3, percentile: 50}", "empty": "{}", "field_only": "{field: User}",
}
for _k, _c in CORR_CONDITIONS.items():
    CORRELATION["cond_" + _k] = RULES["simple"] + "---\n" + """title: Corr %s
correlation:
  type: %s
  rules: [5013332f-8a70-4a04-bcc1-06a98a2cca2e]
  group-by: [User]
  timespan: 5m
  condition: %s
""" % (_k, "value_count" if "field" in _c else "event_count", _c)


def filt(title, rules, det):
    return (f"title: {title}\nlogsource:\n  category: process_creation\n  product: windows\nfilter:\n  rules:\n"
            + "".join(f"    - {r}\n" for r in rules) + "".join("  " + l + "\n" for l in det.strip("\n").split("\n")))


FILTERS = {
    "f_simple": filt("F simple", RID[:2], "flt: {User|startswith: 'adm_'}\ncondition: not flt"),
    "f_multi": filt("F multi", RID, "selection_a: {ParentImage: a}\nselection_b: {ParentImage: b}\nother: {Host: h}\ncondition: not (1 of selection_* and other)"),
    "f_them": filt("F them", RID[:3], "x1: {p: 1}\nx2: {q: 2}\ncondition: not 1 of them"),
    "f_undefined": filt("F undefined", RID[:1], "flt: {u: 1}\ncondition: not nosuch"),
    "f_digit": filt("F digit", RID[:1], "1st: {u: 1}\ncondition: not 1st"),
}

PIPELINES = {
    "one_to_many": """name: one to many
priority: 10
transformations:
  - id: m1
    type: field_name_mapping
    mapping:
      CommandLine: [cmd, process.command_line, ProcessCmd]
      Image: [img, process.executable]
      fieldA: [a_one, a_two, a_three, a_four]
      fieldB: b
      f1: [r1, r2]
      User: [user.name, winlog.user]
      fld03: [f3a, f3b]
""",
    "chained": """name: chained
priority: 20
transformations:
  - type: field_name_mapping
    mapping: {CommandLine: [c1, c2], fieldA: [c1, a1], fieldB: x}
  - type: field_name_mapping
    mapping: {c1: [d1, d2, d3], x: [y, z]}
  - type: field_name_mapping
    mapping: {d1: e, y: [e, w]}
  - type: field_name_prefix
    prefix: 'win.'
""",
    "nested": """name: nested
priority: 30
transformations:
  - type: nest
    items:
      - type: field_name_mapping
        mapping: {CommandLine: [n1, n2, n3], Image: [n1, i2], fieldA: [n2, n9]}
      - type: nest
        items:
          - type: field_name_mapping
            mapping: {n1: [m1, m2], n2: [m2, m3]}
          - id: inner_add
            type: add_condition
            conditions: {nested_idx: inner}
      - type: field_name_mapping
        mapping: {m2: [k1, k2, k3]}
  - type: field_name_suffix
    suffix: '.keyword'
    field_name_conditions:
      - type: include_fields
        fields: [k1, k2]
""",
    "strict_fail": """name: strict
priority: 40
transformations:
  - type: field_name_mapping
    mapping: {CommandLine: [cmd1, cmd2], fieldA: a}
  - type: strict_field_mapping_failure
""",
    "add_condition": """name: add condition
priority: 50
transformations:
  - type: add_condition
    conditions: {index: main, sourcetype: [s1, s2]}
  - type: add_condition
    negated: true
    conditions: {noise: 'yes'}
  - type: add_condition
    template: true
    conditions: {src: '$category', prod: ['$product', fixed]}
    rule_conditions:
      - type: logsource
        category: process_creation
""",
    "conditions": """name: conditional items
priority: 60
transformations:
  - id: cond_a
    type: field_name_mapping
    mapping: {CommandLine: [x1, x2]}
    rule_cond_expr: ls and not other
    rule_conditions:
      ls: {type: logsource, category: process_creation}
      other: {type: logsource, product: linux}
  - id: cond_b
    type: replace_string
    regex: 'test'
    replacement: 'TEST'
    rule_conditions:
      - type: processing_item_applied
        processing_item_id: cond_a
  - id: cond_c
    type: drop_detection_item
    field_name_conditions:
      - type: include_fields
        fields: [fieldE, fld05]
  - type: set_state
    key: index
    val: idx
  - type: value_placeholders
    include: [admins]
  - type: wildcard_placeholders
""",
    "failures": """name: failures
priority: 70
transformations:
  - type: detection_item_failure
    message: 'field fieldC is not supported'
    field_name_conditions:
      - type: include_fields
        fields: [fieldC]
  - type: rule_failure
    message: 'regex rules are not supported'
    rule_conditions:
      - type: contains_detection_item
        field: f5
        value: plain
""",
    "vars": """name: vars
priority: 5
vars:
  admins: [root, Administrator, 'adm*']
  dir: [Windows, Temp]
transformations:
  - type: value_placeholders
""",
    "regex_case": """name: regex
priority: 15
transformations:
  - type: regex
  - type: field_name_mapping
    mapping: {f1: [g1, g2, g3]}
""",
    # pipeline that fails to load: error text at top level
    "unreferenced": """name: unreferenced
priority: 10
transformations:
  - type: field_name_mapping
    mapping: {a: b}
    rule_cond_expr: c1
    rule_conditions:
      c1: {type: logsource, category: x}
      zz: {type: logsource, category: y}
      Aa: {type: logsource, category: z}
      m5: {type: logsource, category: w}
      b2: {type: logsource, category: v}
""",
}

# pipelines whose items fail with a message that names the failing transformation / condition / detection item
_TRACK = """name: %s
priority: %d
transformations:
  - id: tr_map
    type: field_name_mapping
    mapping: {CommandLine: [cmd_a, cmd_b], fieldA: [a_one, a_two], fieldB: b, Image: img}
  - id: tr_prefix
    type: field_name_prefix
    prefix: 'p.'
  - id: tr_state
    type: set_state
    key: k
    val: 5
"""
MSG_PIPELINES = {
    "convert_type": _TRACK % ("convert type", 10) + """  - id: conv
    type: convert_type
    target_type: num
""",
    "convert_type_nested": _TRACK % ("convert type nested", 10) + """  - type: nest
    items:
      - type: field_name_mapping
        mapping: {p.img: [i1, i2, i3]}
      - id: conv_inner
        type: convert_type
        target_type: num
        field_name_conditions:
          - type: include_fields
            fields: [p.cmd_a, p.b, i2]
""",
    "rule_attribute": _TRACK % ("rule attribute", 10) + """  - id: attr
    type: set_state
    key: k2
    val: v
    rule_conditions:
      - type: rule_attribute
        attribute: status
        value: notanumber
        op: gte
""",
    "state_op": _TRACK % ("state op", 10) + """  - id: st
    type: set_state
    key: k3
    val: v
    rule_conditions:
      - type: processing_state
        key: k
        val: 3
        op: badop
""",
    "values_twice": _TRACK % ("values twice", 10) + """  - {id: r1, type: replace_string, regex: t, replacement: u}
  - {id: r2, type: replace_string, regex: u, replacement: w}
  - {id: r3, type: case, method: upper}
""",
}

# nested pipelines with one-to-many mappings followed by items gated on field-name level processing_item_applied
PIPELINES["nest_applied"] = """name: nest applied
priority: 10
transformations:
  - id: ecs_map
    type: field_name_mapping
    mapping: {Image: process, User: user, CommandLine: cmdline, fieldA: fa}
  - id: nested
    type: nest
    items:
      - id: fan_out
        type: field_name_mapping
        mapping:
          process: [proc_a, proc_b, proc_c, proc_d]
          user: [u1, u2, u3]
          fa: [fa1, fa2]
  - id: keyword_suffix
    type: field_name_suffix
    suffix: .keyword
    field_name_conditions:
      - type: processing_item_applied
        processing_item_id: ecs_map
"""
PIPELINES["nest_applied_inner"] = """name: nest applied inner
priority: 10
transformations:
  - id: outer_map
    type: field_name_mapping
    mapping: {Image: [img1, img2], TargetUser: tu, fieldB: [fb1, fb2, fb3]}
  - type: nest
    items:
      - id: inner_a
        type: field_name_mapping
        mapping: {img1: [i1a, i1b, i1c], tu: [tu1, tu2], fb2: [x1, x2]}
      - type: nest
        items:
          - id: inner_b
            type: field_name_mapping
            mapping: {i1b: [deep1, deep2, deep3], tu2: [tv, tw]}
          - id: inner_prefix
            type: field_name_prefix
            prefix: 'in.'
            field_name_conditions:
              - type: processing_item_applied
                processing_item_id: inner_a
  - id: sfx_outer
    type: field_name_suffix
    suffix: '.o'
    field_name_conditions:
      - type: processing_item_applied
        processing_item_id: outer_map
  - id: sfx_inner
    type: field_name_suffix
    suffix: '.i'
    field_name_conditions:
      - type: processing_item_applied
        processing_item_id: inner_b
  - id: pre_not
    type: field_name_prefix
    prefix: 'n.'
    field_name_cond_not: true
    field_name_conditions:
      - type: processing_item_applied
        processing_item_id: inner_a
"""

VALIDATORS = {
    "all": {"validators": ["all"]},
    "some": {"validators": ["all", "-attacktag", "-d3_fendtag", "-tlptag", "-stptag"],
             "exclusions": {RID[0]: ["dangling_detection", "wildcards_instead_of_modifiers"]}},
    "bad_remove": {"validators": ["dangling_detection", "-nosuch_validator"]},
    "bad_names": {"validators": ["zz_unknown", "aa_unknown", "mm_unknown", "Bb_unknown", "q_unknown"]},
}


SEP_FILTERS = {
    "them": filt("Sep them", RID[:2], "adm: {User|startswith: 'adm_'}\nbkp: {User|startswith: 'bkp_'}\ncondition: not 1 of them"),
    "host": filt("Sep host", RID[:2], "srv: {Host|startswith: 'srv_'}\ncondition: not srv"),
    "wild": filt("Sep wild", RID[:2], "sel_a: {ParentImage|endswith: a}\nsel_b: {ParentImage|endswith: b}\nother: {Host: h}\ncondition: not (all of sel_* or other)"),
    "star": filt("Sep star", RID[:2], "q1: {Q: 1}\ncondition: not 1 of *"),
    "same1": filt("Sep same 1", RID[:2], "flt: {User: a}\ncondition: not 1 of them"),
    "same2": filt("Sep same 2", RID[:2], "flt: {Host: b}\ncondition: not 1 of flt*"),
}


def gen_nest_pipeline(rng, name):
    """outer 1:1 / 1:n mapping with an id, a (possibly doubly) nested pipeline mapping the results one-to-many, later
    outer items gated on field-name (and detection-item) level processing_item_applied conditions"""
    import yaml
    src = ["Image", "User", "CommandLine", "TargetUser", "OriginalFileName", "ParentImage", "fieldA", "fieldB"]
    k = [0]

    def targets(base, n):
        k[0] += 1
        return [f"{base.lower()}_{k[0]}{c}" for c in "abcd"[:n]]
    cur = rng.sample(src, rng.randint(2, 5))
    m0 = {f: (targets(f, 1)[0] if rng.random() < 0.6 else targets(f, rng.randint(2, 3))) for f in cur}
    lvl1 = [t for v in m0.values() for t in ([v] if isinstance(v, str) else v)]
    pick1 = rng.sample(lvl1, rng.randint(1, min(3, len(lvl1))))
    m1 = {f: targets(f, rng.randint(2, 4)) for f in pick1}
    inner = [{"id": "n_map", "type": "field_name_mapping", "mapping": m1}]
    ids = ["o_map", "n_map"]
    if rng.random() < 0.5:
        lvl2 = [t for v in m1.values() for t in v]
        m2 = {f: targets(f, rng.randint(2, 3)) for f in rng.sample(lvl2, rng.randint(1, min(2, len(lvl2))))}
        inner.append({"type": "nest", "items": [{"id": "nn_map", "type": "field_name_mapping", "mapping": m2}]})
        ids.append("nn_map")
    items = [{"id": "o_map", "type": "field_name_mapping", "mapping": m0}, {"id": "nested", "type": "nest", "items": inner}]
    for j in range(rng.randint(1, 3)):
        it = {"id": f"gated{j}", "type": rng.choice(["field_name_suffix", "field_name_prefix"])}
        it["suffix" if it["type"].endswith("suffix") else "prefix"] = f".g{j}" if it["type"].endswith("suffix") else f"g{j}."
        cond = {"type": "processing_item_applied", "processing_item_id": rng.choice(ids)}
        if rng.random() < 0.75:
            it["field_name_conditions"] = [cond]
            if rng.random() < 0.25:
                it["field_name_cond_not"] = True
        else:
            it["detection_item_conditions"] = [cond]
        items.append(it)
    return yaml.safe_dump({"name": name, "priority": 10, "transformations": items}, sort_keys=False)


def entry(eid, docs, pipelines=(), validators=None, fmt="default", separate=()):
    e = {"id": eid, "docs": docs, "pipelines": list(pipelines), "format": fmt}
    if separate:
        e["filters_separate"] = list(separate)
    if validators is not None:
        e["validators"] = validators
    return e


def build_corpus(tier, rng):
    out = []
    allrules = "---\n".join(RULES[k] for k in RULES if k not in ("underscore_sel",))
    P = PIPELINES
    # hand-made
    out.append(entry("all-rules-plain", allrules))
    out.append(entry("all-rules-one-to-many", allrules, [P["one_to_many"]]))
    out.append(entry("all-rules-chained", allrules, [P["chained"]]))
    out.append(entry("all-rules-nested", allrules, [P["nested"]]))
    out.append(entry("all-rules-strict", allrules, [P["strict_fail"]]))
    out.append(entry("all-rules-addcond", allrules, [P["add_condition"]]))
    out.append(entry("all-rules-conditions-vars", allrules, [P["conditions"], P["vars"]]))
    out.append(entry("all-rules-failures", allrules, [P["failures"]]))
    out.append(entry("all-rules-regex", allrules, [P["regex_case"]]))
    out.append(entry("all-rules-stack", allrules, [P["one_to_many"], P["chained"], P["nested"], P["add_condition"]]))
    out.append(entry("pipeline-unreferenced", RULES["simple"], [P["unreferenced"]]))
    out.append(entry("filters-all", allrules + "---\n" + FILTERS["f_simple"] + "---\n" + FILTERS["f_multi"] + "---\n" + FILTERS["f_them"],
                     [P["one_to_many"], P["add_condition"]]))
    out.append(entry("filters-nested", allrules + "---\n" + FILTERS["f_multi"] + "---\n" + FILTERS["f_them"], [P["nested"]]))
    out.append(entry("filter-undefined", RULES["simple"] + "---\n" + FILTERS["f_undefined"]))
    out.append(entry("filter-undefined-second-token", RULES["simple"] + "---\n" + filt("F undef 2", RID[:1], "selection: {u: 1}\ncondition: not selection and not other")))
    out.append(entry("filter-undefined-separate", RULES["simple"], [P["add_condition"]],
                     separate=[filt("F undef 3", RID[:1], "flt: {u: 1}\ncondition: not (flt or missing_one)")]))
    out.append(entry("filter-digit", RULES["simple"] + "---\n" + FILTERS["f_digit"], [P["add_condition"]]))
    out.append(entry("underscore-selector", RULES["underscore_sel"], [P["add_condition"]]))
    out.append(entry("underscore-selector-filter", RULES["underscore_sel"].replace("title:", "id: " + RID[0] + "\ntitle:", 1)
                     + "---\n" + FILTERS["f_simple"]))
    M = MSG_PIPELINES
    b64 = rule("Base64 value", "sel: {'fieldA|base64': test, 'fieldB|wide|base64offset|contains': tt}\ncondition: sel")
    for k in M:
        out.append(entry("msg-" + k, RULES["simple"] + "---\n" + RULES["multi_fields"] + "---\n" + RULES["regex_flags"] + "---\n" + b64, [M[k]]))
    out.append(entry("msg-convert-type-stack", allrules + "---\n" + b64, [M["convert_type"], P["add_condition"], P["vars"]]))
    out.append(entry("msg-to-dict-filters", b64 + "---\n" + RULES["simple"] + "---\n" + FILTERS["f_simple"], [M["values_twice"], P["chained"]]))
    fr = RULES["fieldref"] + "---\n" + RULES["fieldref_many"] + "---\n" + RULES["simple"] + "---\n" + RULES["multi_fields"]
    out.append(entry("nest-applied", fr, [P["nest_applied"]]))
    out.append(entry("nest-applied-inner", fr, [P["nest_applied_inner"]]))
    out.append(entry("nest-applied-both", fr, [P["nest_applied_inner"], P["add_condition"]]))
    for j in range(6 if tier == "quick" else 40):
        out.append(entry(f"nest-applied-gen-{j}", fr, [gen_nest_pipeline(rng, f"gen nest {j}")]))
    S = SEP_FILTERS
    two = RULES["simple"] + "---\n" + RULES["multi_fields"]
    out.append(entry("separate-them-host", two, separate=[S["them"], S["host"]]))
    out.append(entry("separate-host-them", two, [P["add_condition"]], separate=[S["host"], S["them"]]))
    out.append(entry("separate-wild-star-them", two, [P["one_to_many"]], separate=[S["wild"], S["star"], S["them"]]))
    out.append(entry("separate-same-names", two, separate=[S["same1"], S["same2"], S["same1"]]))
    out.append(entry("separate-plus-stream", two + "---\n" + FILTERS["f_them"], [P["nested"]], separate=[S["star"], S["host"]]))
    for k, v in CORRELATION.items():
        if not k.startswith("cond_") or tier != "quick":
            out.append(entry("corr-" + k, v, [P["one_to_many"]]))
        out.append(entry("corr-" + k + "-plain", v))
    for k, v in VALIDATORS.items():
        out.append(entry("validators-" + k, allrules, [], validators=v))
        out.append(entry("validators-" + k + "-filters", allrules + "---\n" + FILTERS["f_multi"], [P["add_condition"]], validators=v))
    for fmt in ("test", "state", "str", "list_of_dict"):
        out.append(entry("format-" + fmt, RULES["simple"] + "---\n" + RULES["selectors"], [P["one_to_many"], P["conditions"]], fmt=fmt))
    # generated combinations: subsets of rules x stacks of pipelines x filters
    rk = [k for k in RULES if k != "underscore_sel"]
    pk = [k for k in P if k != "unreferenced"]
    fk = ["f_simple", "f_multi", "f_them"]
    n = 24 if tier == "quick" else 150
    for i in range(n):
        rs = rng.sample(rk, rng.randint(1, 5))
        ps = rng.sample(pk, rng.randint(0, 3))
        mp = [M[rng.choice(sorted(M))]] if rng.random() < 0.2 else []
        fs = rng.sample(fk, rng.choice([0, 0, 1, 2]))
        docs = "---\n".join([RULES[k] for k in rs] + [FILTERS[k] for k in fs])
        v = rng.choice([None, None, VALIDATORS["all"], VALIDATORS["some"]])
        sep = [S[k] for k in rng.sample(sorted(S), rng.choice([0, 0, 2, 3]))]
        out.append(entry(f"gen-{i}-" + "+".join(rs) + "|" + "+".join(ps) + "|" + "+".join(fs) + ("|sep%d" % len(sep) if sep else ""),
                         docs, [P[k] for k in ps] + mp, validators=v, separate=sep))
    return out


TOKEN = re.compile(r"[a-zA-Z*][a-zA-Z0-9*_-]*")
KEYWORDS = {"not", "and", "or", "all", "any", "of", "1", "them"}


def entry_known(e):
    """class of inputs of the known findings (input predicate only)"""
    import yaml
    try:
        docs = [d for d in yaml.safe_load_all(e["docs"]) if isinstance(d, dict)]
        for fdoc in e.get("filters_separate", []):     # filters applied in separate apply_filters calls
            docs += [d for d in yaml.safe_load_all(fdoc) if isinstance(d, dict)]
    except Exception:
        return None
    has_filter = any("filter" in d for d in docs)
    draws = has_filter or any("add_condition" in p for p in e.get("pipelines", []))
    for d in docs:
        f = d.get("filter")
        if isinstance(f, dict):
            cond = f.get("condition")
            cond = cond[0] if isinstance(cond, list) else cond
            names = [k for k in f if k not in ("rules", "condition")]
            if isinstance(cond, str):
                rest = TOKEN.sub(lambda m: "", cond)
                toks = [t for t in TOKEN.findall(cond) if t.lower() not in KEYWORDS]
                # a token that names no detection of the filter, or an identifier the token regex cannot see whole
                if any("*" not in t and t not in names for t in toks) or any(not re.match(r"[a-zA-Z]", n) for n in names):
                    return "C20-F2-error-text-names-drawn-filter-prefix"
    if draws:
        for d in docs:
            det = d.get("detection")
            if isinstance(det, dict):
                conds = det.get("condition")
                conds = conds if isinstance(conds, list) else [conds]
                for c in conds:
                    if isinstance(c, str) and re.search(r"\bof\s+_", c):
                        return "C20-F1-underscore-selector-captures-drawn-names"
    return None
