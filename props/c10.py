"""C10: correlation queries carry every element of the correlation rule.

Cases are rule collections (plain rules, optionally a nested correlation rule, and the correlation rule
under test as last document) x backend variants (impl/c10.py: bracket-structured templates) x field-name
pipelines.  bit 1: the faithful model's query text == the implementation's.  bit 2: the implementation's
query is read back into its bracket tree inside Coq and compared with Spec/CorrSpec.v `expected`, which is
computed from the source documents and from what every referenced rule converts to on its own (run
separately through the real code); extended conditions are lexed and compared by truth table with the
generator's source expression."""
import copy, itertools, random, re
from vlib.core import Property, Suite, clist, cbool, copt, cnat, cZ


def cstr(s):
    """text as a Coq string literal, decoded by Run/C10run.v u8 (much cheaper to elaborate than a list of numbers)"""
    return '(u8 "' + s.replace('"', '""') + '"%string)'

TYPES = ["event_count", "value_count", "temporal", "temporal_ordered", "value_sum", "value_avg",
         "value_percentile", "value_median"]
CT = {"event_count": "TEventCount", "value_count": "TValueCount", "temporal": "TTemporal",
      "temporal_ordered": "TTemporalOrdered", "value_sum": "TValueSum", "value_avg": "TValueAvg",
      "value_percentile": "TValuePercentile", "value_median": "TValueMedian"}
OPS = ["lt", "lte", "gt", "gte", "eq", "neq"]
COP = {"lt": "OpLt", "lte": "OpLte", "gt": "OpGt", "gte": "OpGte", "eq": "OpEq", "neq": "OpNeq"}
UNITS = ["s", "m", "h", "d", "w", "M", "y"]
PRECS = [list(p) for p in itertools.permutations(["not", "and", "or"])]
FIELDS = ["src", "u", "x", "y", "my field", "a.b", "k-1", "Z_9"]
DET_FIELDS = ["src", "u", "x", "y"]
ALIASES = ["al", "user", "u"]          # "u" collides with a field name on purpose
IDS = {"rule_a": "0e95725d-7320-415d-80f7-004da920fc11", "rule_b": "a0e95725-7320-415d-80f7-004da920fc22",
       "rule_c": None, "rule_d": "c1e95725-7320-415d-80f7-004da920fc44", "corr_n": "b2e95725-7320-415d-80f7-004da920fc33"}
ERR = {"SigmaTimespanError": "(SigmaErr 20)", "SigmaConfigurationError": "(SigmaErr 21)",
       "SigmaConversionError": "(SigmaErr 22)", "IndexError": "(Crash 1)", "NotImplementedError": "(Crash 2)"}


# --------------------------------------------------------------------------------------------------
# generator
def gen_k(rng):
    return {"prec": rng.choice(PRECS) if rng.random() < 0.6 else ["not", "and", "or"],
            "parenthesize": rng.random() < 0.2, "single": rng.random() < 0.6, "norm": rng.random() < 0.85,
            "typing": rng.random() < 0.4, "ts": rng.choice(["map", "seconds", "pass"]), "nofield": rng.random() < 0.5,
            "fields": rng.random() < 0.5, "finalize": rng.random() < 0.5, "own_frame": rng.random() < 0.7,
            "post": rng.random() < 0.4}


def gen_pipe(rng):
    r = rng.random()
    if r < 0.25:
        return []
    def fm(cat=None, aslist=False):
        m = []
        for f in rng.sample(FIELDS + ["m_src", "al"], rng.randint(1, 4)):
            q = rng.random()
            if q < 0.8:
                m.append([f, [rng.choice(["m_" + f.replace(" ", "_"), "m_src", "Mapped Field", "u"])]])
            elif q < 0.93:
                m.append([f, ["m1_" + f, "m2_" + f]])
            elif f not in DET_FIELDS and f != "m_src":
                m.append([f, []])          # dropping a field a plain rule matches on would empty its detection
        d = {"kind": "map", "map": m}
        if cat: d["category"] = cat
        if aslist: d["aslist"] = True
        return d
    if r < 0.55:
        return [fm()]
    if r < 0.65:
        return [fm(), {"kind": rng.choice(["prefix", "suffix"]), "s": rng.choice(["p.", "_s", "win-"])}]
    if r < 0.75:
        return [fm(), fm()]
    if r < 0.85:
        return [{"kind": rng.choice(["prefix", "suffix"]), "s": rng.choice(["p.", "_s"])}]
    if r < 0.95:
        return [fm(cat=rng.choice(["c", "d"]))] + ([fm()] if rng.random() < 0.3 else [])
    return [fm(aslist=True)]


def gen_plain(rng, name):
    dets, conds = {}, []
    for i in range(rng.choice([1, 1, 1, 2, 3])):
        d = {}
        for f in rng.sample(DET_FIELDS, rng.choice([1, 1, 2])):
            mod = rng.choice(["", "", "|contains", "|startswith"])
            d[f + mod] = rng.choice([1, 2, "v", "a b", "w*"]) if not mod else rng.choice(["v", "pq"])
        dets["sel%d" % i] = d
        conds.append("sel%d" % i)
    if len(conds) > 1 and rng.random() < 0.4:
        conds = [" and ".join(conds)]
    doc = {"title": "T " + name, "name": name, "logsource": {"category": rng.choice(["c", "c", "d"])},
           "detection": dict(dets, condition=conds if len(conds) > 1 else conds[0])}
    if IDS.get(name):
        doc["id"] = IDS[name]
    if rng.random() < 0.35:
        doc["fields"] = rng.sample(FIELDS, rng.randint(1, 3))
    return doc


def gen_expr(rng, leaves, nops):
    """random and/or/not tree with exactly the given leaves (in order) and about nops operators"""
    if len(leaves) == 1:
        t = ["ref", leaves[0]]
    else:
        k = rng.randint(1, len(leaves) - 1)
        if len(leaves) >= 3 and rng.random() < 0.3:
            k2 = rng.randint(k + 1, len(leaves)) if k + 1 <= len(leaves) - 1 else None
        else:
            k2 = None
        op = rng.choice(["and", "or"])
        if k2 and k2 < len(leaves):
            args = [gen_expr(rng, leaves[:k], 0), gen_expr(rng, leaves[k:k2], 0), gen_expr(rng, leaves[k2:], 0)]
        else:
            args = [gen_expr(rng, leaves[:k], 0), gen_expr(rng, leaves[k:], 0)]
        t = [op, args]
    while rng.random() < 0.22:
        t = ["not", [t]]
    return t


def spell(t, rng, parent=None):
    """standard Sigma precedence not > and > or; minimal parentheses plus random redundant ones"""
    if t[0] == "ref":
        s = t[1]
        return "(" + s + ")" if rng.random() < 0.05 else s
    if t[0] == "not":
        a = t[1][0]
        inner = spell(a, rng, "not")
        s = "not " + inner
    else:
        s = (" " + t[0] + " ").join(spell(a, rng, t[0]) for a in t[1])
    need = (parent == "not" and t[0] in ("and", "or")) or (parent == "and" and t[0] == "or") \
        or (parent == t[0] and t[0] in ("and", "or")) or (parent in ("and",) and False)
    if need or rng.random() < 0.1:
        return "(" + s + ")"
    return s


def flatten(t):
    """what the reference meaning is indifferent to: nothing; kept as generated"""
    return t


def gen_timespan(rng):
    r = rng.random()
    if r < 0.8:
        return str(rng.choice([1, 2, 5, 10, 15, 30, 60, 90, 365, 1000, 86400])) + rng.choice(UNITS)
    if r < 0.93:
        return rng.choice(["+5m", "05h", " 7d", "1_0s", "0s", "-3m", "007M", "12 y", "\t2w", "1_000_000s"])
    return rng.choice(["5x", "m", "", "5", "5 ", "m5", "5mm", "1__0s", "_5s", "5.5m", "0x10s", "5S"])


def gen_base(rng):
    names = rng.sample(["rule_a", "rule_b", "rule_c", "rule_d"], rng.randint(1, 4))
    docs = [gen_plain(rng, n) for n in names]
    avail = list(names)
    if rng.random() < 0.25:
        inner = rng.choice(names)
        docs.append({"title": "T corr_n", "name": "corr_n", "id": IDS["corr_n"],
                     "correlation": {"type": "event_count", "rules": [inner], "timespan": "1h",
                                     "group-by": rng.choice([None, ["src"]]), "condition": {"gte": 2},
                                     "generate": rng.random() < 0.3}})
        if docs[-1]["correlation"]["group-by"] is None:
            del docs[-1]["correlation"]["group-by"]
        avail.append("corr_n")
    return docs, avail


def gen_top(rng, avail, alias_pool=ALIASES, palias=0.45, name="top", group_pool=FIELDS):
    """one correlation rule over the available documents; returns (document, source tree of its extended condition)"""
    typ = rng.choice(TYPES)
    nref = rng.choice([1, 1, 2, 2, 3, 4])
    refs = rng.sample(avail, min(nref, len(avail)))
    ext = typ in ("temporal", "temporal_ordered") and rng.random() < 0.5

    def ident(n):
        """how the rule is referenced: by name, by id, or (hostile) by the id written without hyphens"""
        q = rng.random()
        if IDS.get(n) and not ext and q < 0.2:
            return IDS[n]
        if IDS.get(n) and q < 0.04 and IDS[n][0].isalpha():
            return IDS[n].replace("-", "")
        return n
    refids = [ident(n) for n in refs]
    corr = {"type": typ, "timespan": gen_timespan(rng)}
    xsrc = None
    if ext:
        leaves = list(refids)
        for _ in range(rng.choice([0, 0, 1, 2])):
            leaves.append(rng.choice(refids))
        rng.shuffle(leaves)
        xsrc = gen_expr(rng, leaves, 0)
        corr["condition"] = spell(xsrc, rng)
        if rng.random() < 0.5:
            corr["rules"] = refids
    else:
        corr["rules"] = refids if (len(refids) > 1 or rng.random() < 0.6) else refids[0]
        needs_field = typ.startswith("value_")
        if typ in ("temporal", "temporal_ordered") and rng.random() < 0.4:
            pass       # default condition
        else:
            c = {rng.choice(OPS): rng.choice([0, 1, 2, 5, 10, 100, -1, 1000000])}
            if needs_field or rng.random() < 0.15:
                c["field"] = rng.choice(FIELDS) if rng.random() < 0.85 else rng.sample(["src", "u", "x", "Z_9"], rng.randint(1, 3))
            if typ == "value_percentile" and rng.random() < 0.9:
                c["percentile"] = rng.choice([50, 95, 99, 0])
            corr["condition"] = c
    als = {}
    if rng.random() < palias:
        for a in rng.sample(alias_pool, rng.choice([1, 1, 2])):
            mp = {}
            for n, rid in zip(refs, refids):
                if rng.random() < 0.75:
                    key = rid
                    if rng.random() < 0.06 and IDS.get(n):
                        key = IDS[n] if rid == n else n         # the other identifier of the same rule
                    mp[key] = rng.choice(FIELDS)
            if rng.random() < 0.04:
                mp["no_such_rule"] = "src"
            if mp:
                als[a] = mp
        if als:
            corr["aliases"] = als
    if rng.random() < (0.8 if als else 0.5):
        g = rng.sample(group_pool, rng.randint(0, 2)) + [a for a in als if rng.random() < 0.8]
        rng.shuffle(g)
        if g:
            corr["group-by"] = g if (len(g) > 1 or rng.random() < 0.7) else g[0]
    if rng.random() < 0.3:
        corr["generate"] = rng.random() < 0.6
    top = {"title": "T " + name, "name": name, "correlation": corr}
    if rng.random() < 0.35:
        top["fields"] = rng.sample(FIELDS, rng.randint(1, 3))
    return top, xsrc


def gen_case(rng, tier):
    k = gen_k(rng)
    pipe = gen_pipe(rng)
    docs, avail = gen_base(rng)
    top, xsrc = gen_top(rng, avail)
    return {"k": k, "pipe": pipe, "docs": docs + [top], "xsrc": xsrc}


def covering(rng):
    """one case per (type x unit x operator) cell and per backend-variant flag, on a small fixed collection"""
    out = []
    base_docs = [
        {"title": "T rule_a", "name": "rule_a", "id": IDS["rule_a"], "logsource": {"category": "c"}, "fields": ["src", "x"],
         "detection": {"sel": {"src": 1}, "condition": "sel"}},
        {"title": "T rule_b", "name": "rule_b", "id": IDS["rule_b"], "logsource": {"category": "c"},
         "detection": {"s1": {"u": 2}, "s2": {"y|contains": "v"}, "condition": ["s1", "s2"]}},
    ]
    for i, typ in enumerate(TYPES):
        for j, unit in enumerate(UNITS):
            for l, op in enumerate(OPS):
                k = gen_k(rng)
                c = {op: (i * 7 + j + l) % 13}
                if typ.startswith("value_"):
                    c["field"] = FIELDS[(i + j + l) % len(FIELDS)]
                if typ == "value_percentile":
                    c["percentile"] = 90 + l
                corr = {"type": typ, "rules": ["rule_a", "rule_b"][: 1 + (j + l) % 2], "timespan": "%d%s" % (1 + (i * 3 + l) % 17, unit),
                        "condition": c}
                if (i + j) % 2:
                    corr["group-by"] = ["al", "x"]
                    corr["aliases"] = {"al": {"rule_a": "src", "rule_b": "u"}}
                out.append({"k": k, "pipe": gen_pipe(rng) if l % 2 else [], "xsrc": None,
                            "docs": copy.deepcopy(base_docs) + [{"title": "T top", "name": "top", "correlation": corr}]})
    return out


def compositions(n):
    if n == 0:
        yield []
        return
    for k in range(1, n + 1):
        for rest in compositions(n - k):
            yield [k] + rest


def all_trees(leaves, allow_not=True):
    """every and/or/not tree with exactly these leaves in this order (no double negation)"""
    n = len(leaves)
    cores = []
    if n == 1:
        cores.append(["ref", leaves[0]])
    else:
        for comp in compositions(n):
            if len(comp) < 2:
                continue
            parts, i = [], 0
            for k in comp:
                parts.append(leaves[i:i + k]); i += k
            subs = [list(all_trees(p)) for p in parts]
            for op in ("and", "or"):
                for combo in itertools.product(*subs):
                    cores.append([op, list(combo)])
    for c in cores:
        yield c
        if allow_not:
            yield ["not", [c]]


def exhaustive_ext(tier, rng):
    """every extended condition with up to 3 leaves over two rules (both referenced), each under one (quick: a
    sample of 150) or two (thorough: all ~1750 expressions) random backend variants"""
    docs = [
        {"title": "T rule_a", "name": "rule_a", "id": IDS["rule_a"], "logsource": {"category": "c"},
         "detection": {"sel": {"src": 1}, "condition": "sel"}},
        {"title": "T rule_b", "name": "rule_b", "logsource": {"category": "c"},
         "detection": {"s1": {"u": 2}, "s2": {"y": 3}, "condition": ["s1", "s2"]}},
    ]
    exprs = []
    for n in (1, 2, 3):
        for asg in itertools.product(["rule_a", "rule_b"], repeat=n):
            if n > 1 and len(set(asg)) < 2:
                continue
            exprs += list(all_trees(list(asg)))
    if tier == "quick":
        exprs = rng.sample(exprs, 150)
    out = []
    for t in exprs:
        for _ in range(1 if tier == "quick" else 2):
            k = gen_k(rng)
            k["prec"] = rng.choice(PRECS)
            names = sorted(set(leaves(t)))
            corr = {"type": rng.choice(["temporal", "temporal_ordered"]), "timespan": "5m", "condition": spell(t, rng)}
            if rng.random() < 0.5:
                corr["rules"] = names
            out.append({"k": k, "pipe": [], "xsrc": t,
                        "docs": [d for d in copy.deepcopy(docs) if d["name"] in names] + [{"title": "T top", "name": "top", "correlation": corr}]})
    return out


def gen_corr(tier, rng):
    n = 400 if tier == "quick" else 9000
    out = covering(rng) + exhaustive_ext(tier, rng)
    out += [gen_case(rng, tier) for _ in range(n)]
    return out


# --------------------------------------------------------------------------------------------------
# encoding into Coq
def canon_id(s):
    return re.sub(r"[^0-9a-f]", "", s.lower())


def resolve(docs, ref):
    """index of the document a reference resolves to (UUID first, then name), None if none"""
    h = canon_id(ref)
    if len(h) == 32 and re.fullmatch(r"[0-9a-fA-F-]+", ref):
        for i, d in enumerate(docs):
            if d.get("id") and canon_id(d["id"]) == h:
                return i
        return None
    for i, d in enumerate(docs):
        if d.get("name") == ref:
            return i
    return None


def cats_of(docs, i):
    d = docs[i]
    if "correlation" not in d:
        return [d["logsource"]["category"]]
    out = []
    r = d["correlation"].get("rules") or []
    for ref in ([r] if isinstance(r, str) else r):
        j = resolve(docs, ref)
        if j is not None:
            out += cats_of(docs, j)
    return out


def strip_fin(k, q):
    pre = ("P:" if k["post"] else "") + "F:"
    suf = ":F" + (":P" if k["post"] else "")
    if q.startswith(pre) and q.endswith(suf) and len(q) >= len(pre) + len(suf):
        return q[len(pre):len(q) - len(suf)]
    return q


def c_info(case, res, i):
    docs, k = case["docs"], case["k"]
    d = docs[i]
    own = res["own"][i]
    if "ok" not in own:
        return None
    fin = own["ok"]
    raw = [strip_fin(k, q) for q in fin]
    return ("{| ri_name := %s; ri_id := %s; ri_corr := %s; ri_raw := %s; ri_fin := %s; ri_fields := %s; ri_cats := %s |}" % (
        copt(cstr(d["name"]) if d.get("name") else None), copt(cstr(d["id"]) if d.get("id") else None),
        cbool("correlation" in d), clist("pq " + cstr(q) for q in raw), clist("pq " + cstr(q) for q in fin),
        clist(cstr(f) for f in d.get("fields", [])), clist(cstr(c) for c in cats_of(docs, i))))


NOINFO = "no_info"


def c_ref(case, res, ref):
    i = resolve(case["docs"][:-1], ref)
    if i is None:
        return None
    info = c_info(case, res, i)
    if info is None:
        return None
    return "{| rr_ref := %s; rr_doc := %s; rr_info := %s |}" % (cstr(ref), cnat(i), info)


def c_tree(t, idx):
    if t[0] == "ref":
        return "(CAtom KOther None false %s)" % cnat(idx[t[1]])
    if t[0] == "not":
        if len(t[1]) != 1:
            return None
        a = c_tree(t[1][0], idx)
        return None if a is None else "(CNot %s)" % a
    if t[0] in ("and", "or"):
        args = [c_tree(a, idx) for a in t[1]]
        if any(a is None for a in args):
            return None
        return "(CBin %s %s)" % ("BAnd" if t[0] == "and" else "BOr", clist(args))
    return None


def leaves(t):
    if t[0] == "ref":
        return [t[1]]
    return [x for a in t[1] for x in leaves(a)]


def c_k(k):
    lv = {x: i + 1 for i, x in enumerate(k["prec"])}
    cfg = ("{| lvl := fun o => match o with ONot => %d%%nat | OAnd => %d%%nat | OOr => %d%%nat end; parenthesize := %s; or_in := false; "
           "and_in := false; in_wild := false; not_eq := false |}" % (lv["not"], lv["and"], lv["or"], cbool(k["parenthesize"])))
    ts = {"map": "TsMap", "seconds": "TsSeconds", "pass": "TsPass"}[k["ts"]]
    return ("{| k_cfg := %s; k_single := %s; k_norm := %s; k_typing := %s; k_ts := %s; k_nofield := %s; k_fields := %s; "
            "k_finalize := %s; k_own_frame := %s; k_post := %s |}" % (cfg, cbool(k["single"]), cbool(k["norm"]), cbool(k["typing"]), ts,
                                                                  cbool(k["nofield"]), cbool(k["fields"]), cbool(k["finalize"]),
                                                                  cbool(k["own_frame"]), cbool(k["post"])))


def c_pipe(pipe):
    items = []
    for it in pipe:
        if it["kind"] == "map":
            seen, l = set(), []
            for a, b in it["map"]:       # a Python dict keeps the last value of a repeated key
                pass
            d = {}
            for a, b in it["map"]:
                d[a] = b
            f = "(FMap %s)" % clist("(%s, %s)" % (cstr(a), clist(cstr(x) for x in b)) for a, b in d.items())
        elif it["kind"] == "prefix":
            f = "(FPrefix %s)" % cstr(it["s"])
        else:
            f = "(FSuffix %s)" % cstr(it["s"])
        items.append("{| pi_f := %s; pi_cat := %s |}" % (f, copt(cstr(it["category"]) if it.get("category") else None)))
    return clist(items)


def corr_to_coq(case, res):
    if not isinstance(res, dict) or "own" not in res:
        return None
    docs = case["docs"]
    corr = docs[-1]["correlation"]
    # rules
    rv = corr.get("rules")
    cond = corr.get("condition")
    ext = isinstance(cond, str)
    if rv is None:
        rules = None if ext else []
    else:
        rules = [rv] if isinstance(rv, str) else list(rv)
    if rules is not None:
        rl = [c_ref(case, res, r) for r in rules]
        if any(x is None for x in rl):
            return None
        c_rules = "(Some %s)" % clist(rl)
    else:
        c_rules = "None"
    # extended condition: identifier table
    xrefs, xsrc, c_cond = [], "None", None
    if ext:
        if case.get("xsrc") is None:
            return None
        names = []
        for n in (rules or []) + leaves(case["xsrc"]) + (leaves(res["xtree"]) if res.get("xtree") else []):
            if n not in names:
                names.append(n)
        idx = {n: i for i, n in enumerate(names)}
        xr = [c_ref(case, res, n) for n in names]
        if any(x is None for x in xr):
            return None
        xrefs = xr
        src = c_tree(case["xsrc"], idx)
        xsrc = copt(src)
        if "err" in res:
            itree = src          # the rule did not load or convert: the model is given the source tree
        else:
            itree = c_tree(res["xtree"], idx) if res.get("xtree") else None
        if itree is None:
            return None
        c_cond = "(Some (CExt %s))" % itree
    elif cond is None:
        c_cond = "None"
    else:
        op = [o for o in OPS if o in cond][0]
        f = cond.get("field")
        cf = "FNone" if f is None else ("(FOne %s)" % cstr(f) if isinstance(f, str) else "(FMany %s)" % clist(cstr(x) for x in f))
        c_cond = "(Some (CBasic %s %s %s %s))" % (COP[op], cZ(int(cond[op])), cf, copt(cZ(int(cond["percentile"])) if "percentile" in cond else None))
    gb = corr.get("group-by")
    if isinstance(gb, str):
        gb = [gb]
    als = []
    for a, mp in (corr.get("aliases") or {}).items():
        ents = []
        for ref, f in mp.items():
            i = resolve(docs[:-1], ref)
            ents.append("(%s, %s, %s)" % (cstr(ref), cnat(999 if i is None else i), cstr(f)))
        als.append("(%s, %s)" % (cstr(a), clist(ents)))
    r = ("{| r_type := %s; r_rules := %s; r_ts := %s; r_gb := %s; r_aliases := %s; r_cond := %s; r_fields := %s; r_xrefs := %s |}" % (
        CT[corr["type"]], c_rules, cstr(corr["timespan"]), copt(clist(cstr(x) for x in gb) if gb is not None else None),
        clist(als), c_cond, clist(cstr(f) for f in docs[-1].get("fields", [])), clist(xrefs)))
    if "err" in res:
        e = res["err"]
        impl = ERR.get(e["exc"], "(SigmaErr 99)" if e.get("sigma") else "(Crash 99)")
    elif len(res["q"]) != 1:
        impl = "(Crash 98)"
    else:
        impl = "(Ok %s)" % cstr(res["q"][0])
    return "{| cc_K := %s; cc_P := %s; cc_r := %s; cc_impl := %s; cc_xsrc := %s |}" % (c_k(case["k"]), c_pipe(case["pipe"]), r, impl, xsrc)


# --------------------------------------------------------------------------------------------------
# known-finding classes (predicates on the input only)
def _refs_of(case):
    corr = case["docs"][-1]["correlation"]
    rv = corr.get("rules")
    if rv is None:
        return leaves(case["xsrc"]) if case.get("xsrc") else []
    return [rv] if isinstance(rv, str) else list(rv)


def known_corr(case, res):
    docs = case["docs"]
    corr = docs[-1]["correlation"]
    refs = _refs_of(case)
    rdocs = [resolve(docs[:-1], r) for r in refs]
    als = corr.get("aliases") or {}
    for mp in als.values():
        for key in mp:
            i = resolve(docs[:-1], key)
            for r, j in zip(refs, rdocs):
                if (i == j and i is not None) != (key == r):
                    return "C10-alias-under-other-identifier-dropped"
    if isinstance(corr.get("condition"), str):
        for r, j in zip(refs, rdocs):
            if j is not None and r != (docs[j].get("name") or docs[j].get("id")):
                return "C10-extended-condition-prints-reference-as-written"
    for it in case["pipe"]:
        if it.get("category"):
            m = [it["category"] in cats_of(docs, j) for j in rdocs if j is not None]
            if any(m) and not all(m):
                return "C10-conditioned-renaming-applied-to-all-alias-targets"
    return None


def mutate_corr(case, rng):
    out = []
    for key in ("single", "norm", "typing", "nofield", "fields", "finalize", "own_frame", "post", "parenthesize"):
        c = copy.deepcopy(case)
        c["k"][key] = not c["k"][key]
        out.append(c)
    for ts in ("map", "seconds", "pass"):
        c = copy.deepcopy(case)
        c["k"]["ts"] = ts
        out.append(c)
    for u in UNITS:
        c = copy.deepcopy(case)
        c["docs"][-1]["correlation"]["timespan"] = "7" + u
        out.append(c)
    c = copy.deepcopy(case)
    c["pipe"] = []
    out.append(c)
    c = copy.deepcopy(case)
    c["pipe"] = [{"kind": "map", "map": [[f, ["m_" + f.replace(" ", "_")]] for f in FIELDS]}]
    out.append(c)
    for drop in ("aliases", "group-by", "generate"):
        c = copy.deepcopy(case)
        if drop in c["docs"][-1]["correlation"]:
            del c["docs"][-1]["correlation"][drop]
            out.append(c)
    c = copy.deepcopy(case)
    if "group-by" not in c["docs"][-1]["correlation"]:
        c["docs"][-1]["correlation"]["group-by"] = ["src", "al"]
        out.append(c)
    for _ in range(20):
        c = gen_case(rng, "quick")
        c["k"] = copy.deepcopy(case["k"])
        out.append(c)
    return out


# --------------------------------------------------------------------------------------------------
# suite multi: several correlation rules through one backend / pipeline object
MAPPED = ["src", "u", "x", "y"]          # event fields the multi-suite pipelines always rename


def multi_pipe(rng):
    m = [[f, ["m_" + f]] for f in MAPPED if rng.random() < 0.85]
    if not m:
        m = [["src", ["m_src"]]]
    pipe = [{"kind": "map", "map": m}]
    r = rng.random()
    if r < 0.2:
        pipe.append({"kind": rng.choice(["prefix", "suffix"]), "s": rng.choice(["p.", "_s"])})
    elif r < 0.3:
        pipe = [{"kind": rng.choice(["prefix", "suffix"]), "s": "_z"}]
    return pipe


def multi_fixed():
    """the smallest exposing shapes, every order and both modes: one rule defines an alias NAMED like a mapped event
    field, another rule (without that alias) groups by that event field"""
    out = []
    k = {"prec": ["not", "and", "or"], "parenthesize": False, "single": True, "norm": True, "typing": False, "ts": "map",
         "nofield": False, "fields": False, "finalize": False, "own_frame": True, "post": False}
    for f in MAPPED:
        docs = [{"title": "T rule_a", "name": "rule_a", "logsource": {"category": "c"}, "detection": {"sel": {f: "admin"}, "condition": "sel"}},
                {"title": "T rule_b", "name": "rule_b", "logsource": {"category": "c"}, "detection": {"sel": {"k-1": 1}, "condition": "sel"}}]
        with_alias = {"title": "T top0", "name": "top0", "correlation": {
            "type": "event_count", "rules": ["rule_a", "rule_b"], "timespan": "5m", "group-by": [f],
            "aliases": {f: {"rule_a": f, "rule_b": "k-1"}}, "condition": {"gte": 2}}}
        plain = {"title": "T top1", "name": "top1", "correlation": {
            "type": "event_count", "rules": ["rule_a"], "timespan": "5m", "group-by": [f, "Z_9"], "condition": {"gte": 3}}}
        other = {"title": "T top2", "name": "top2", "correlation": {
            "type": "value_count", "rules": ["rule_a"], "timespan": "1h", "group-by": ["al", f],
            "aliases": {"al": {"rule_a": f}}, "condition": {"gte": 3, "field": f}}}
        for tops in ([with_alias, plain], [with_alias, plain, other]):
            for order in itertools.permutations(range(len(tops))):
                for mode in ("one", "consecutive"):
                    out.append({"k": k, "pipe": [{"kind": "map", "map": [[g, ["m_" + g]] for g in MAPPED]}], "docs": docs,
                                "tops": copy.deepcopy(tops), "xsrcs": [None] * len(tops), "order": list(order), "mode": mode})
    return out


def gen_multi(tier, rng):
    out = multi_fixed()
    n = 110 if tier == "quick" else 2500
    for _ in range(n):
        docs, avail = gen_base(rng)
        ntop = rng.choice([2, 2, 3])
        tops, xsrcs = [], []
        for i in range(ntop):
            # alias names drawn from the renamed event fields, group-by drawn from the same fields
            t, x = gen_top(rng, avail, alias_pool=MAPPED + ["al"], palias=0.6, name="top%d" % i,
                           group_pool=MAPPED + ["Z_9", "my field"])
            if t["correlation"]["timespan"] and rng.random() < 0.9:
                t["correlation"]["timespan"] = "%d%s" % (rng.choice([1, 5, 30]), rng.choice(UNITS))   # mostly valid
            tops.append(t); xsrcs.append(x)
        orders = list(itertools.permutations(range(ntop)))
        for order in (orders if tier != "quick" else rng.sample(orders, 2)):
            out.append({"k": gen_k(rng), "pipe": multi_pipe(rng) if rng.random() < 0.85 else gen_pipe(rng), "docs": docs,
                        "tops": tops, "xsrcs": xsrcs, "order": list(order), "mode": rng.choice(["one", "consecutive"])})
    return out


def _sub(case, i):
    return {"k": case["k"], "pipe": case["pipe"], "docs": case["docs"] + [case["tops"][i]], "xsrc": case["xsrcs"][i]}


def multi_to_coq(case, res):
    if not isinstance(res, list) or len(res) != len(case["tops"]):
        return None
    terms = [corr_to_coq(_sub(case, i), r) for i, r in enumerate(res)]
    if any(t is None for t in terms):
        return None
    return clist(terms)


def known_multi(case, res):
    for i in range(len(case["tops"])):
        fid = known_corr(_sub(case, i), None)
        if fid:
            return fid
    return None


def mutate_multi(case, rng):
    out = []
    for order in itertools.permutations(range(len(case["tops"]))):
        for mode in ("one", "consecutive"):
            out.append(dict(copy.deepcopy(case), order=list(order), mode=mode))
    return out


def stratum_multi(case, res):
    return "%s/%d tops" % (case["mode"], len(case["tops"]))


def stratum_corr(case, res):
    corr = case["docs"][-1]["correlation"]
    return corr["type"] + ("/ext" if isinstance(corr.get("condition"), str) else "")


# --------------------------------------------------------------------------------------------------
# timespan suite
def gen_ts(tier, rng):
    out = []
    top = 130 if tier == "quick" else 1500
    for n in range(0, top):
        for u in UNITS:
            out.append({"spec": "%d%s" % (n, u)})
    for u in UNITS + ["x", "S", "", " "]:
        for c in ["", "+5", "-5", "05", " 5", "5 ", "1_0", "1__0", "_1", "1_", "5.0", "0x1", "1e3", "٥", "99999999999999999999", "--1", "+-1", "+", "-"]:
            out.append({"spec": c + u})
    for _ in range(300 if tier == "quick" else 5000):
        out.append({"spec": str(rng.randint(0, 10 ** rng.randint(1, 12))) + rng.choice(UNITS)})
    return out


def ts_to_coq(c, r):
    if any(ord(ch) > 127 for ch in c["spec"]):
        return None        # int() accepts non-ASCII digits and blanks; the model states ASCII only
    if isinstance(r, dict) and "exc" in r:
        if r["exc"] != "SigmaTimespanError":
            return f"({cstr(c['spec'])}, Some (0%Z, 0, 1%Z))"       # never agrees: a non-Sigma exception
        return f"({cstr(c['spec'])}, None)"
    return f"({cstr(c['spec'])}, Some ({cZ(r['count'])}, {ord(r['unit'])}, {cZ(r['seconds'])}))"


REQ = ["Base.Chars", "Base.Outcome", "Model.Backend", "Model.BTree", "Model.Corr", "Spec.CorrSpec", "Run.C10run"]
PROPERTY = Property(
    pid="C10", props_file="Props/C10.v",
    suites=[
        Suite("corr", gen_corr, "run_corr", REQ, "judge_corr", corr_to_coq, known=known_corr, mutate=mutate_corr,
              stratum=stratum_corr, shard=120),
        Suite("multi", gen_multi, "run_multi", REQ, "judge_multi", multi_to_coq, known=known_multi, mutate=mutate_multi,
              stratum=stratum_multi, shard=50),
        Suite("timespan", gen_ts, "run_ts", REQ, "judge_ts", ts_to_coq, shard=2000),
    ],
    rule="rule collections: 1-4 plain rules (1-3 conditions, optional id / fields) + optional nested correlation rule + the correlation "
         "rule under test: 8 types x 1..4 references (by name, id, or id without hyphens) x 7 units and hostile/invalid timespans x 6 operators "
         "x group-by / aliases (incl. alias under the other identifier, unknown rule) / generate / fields x extended conditions with up to ~8 "
         "leaves and nested not, spelled with minimal and redundant parentheses; x backend variants (6 precedence orders, parenthesize, "
         "single-rule template, normalisation templates, typing, timespan mapping/seconds/as-is, no-field group-by, fields templates, "
         "sub-query finalisation, per-type or default frame, query post-processing) x pipelines (none, 1:1 / 1:n / 1:0 field mappings, "
         "prefix/suffix, two items, log-source-conditioned items). A (type x unit x operator) covering block is always included, and all extended conditions with up to 3 leaves over two rules (~1750 expressions, incl. nested not and same-operator nesting; quick: a sample of 150) under random precedence orders. "
         "non-trivial = aliases, an extended condition, >= 2 references or a pipeline; distinct by case hash. "
         "multi suite: 2-3 correlation rules over one set of documents converted through ONE backend / pipeline object, in every order of "
         "the correlation rules (quick: 2 orders), either in one rule set or by consecutive convert() calls; alias names are drawn from the "
         "event fields the pipeline renames and other rules group by those fields; a fixed block holds the smallest such shapes in all orders "
         "and both modes; every correlation rule is judged on its own by the unchanged model and specification. "
         "timespan suite: all counts below 130 (quick) / 1500 (thorough) x 7 units, hostile spellings, random counts up to 10^12",
    assumptions=[
        "the referenced rules' own queries are obtained by converting them separately with the real code (their content is C01/C05's subject); "
        "finalisation wrappers F:/P: are stripped by the harness to obtain the un-finalised form",
        "reference resolution (name / UUID) is done by the harness and handed to model and specification (C09's subject)",
        "str.format on the verification backend's templates, int() on ASCII input, str(int), repr of a list of plain names, "
        "escape_and_quote_field for names without quote and backslash, and pyparsing's reading of the extended condition "
        "(the implementation's parse tree is given to the model; the oracle uses the generator's tree) are modelled, not verified",
        "the lexer that turns the read-back extended condition into tokens is part of the oracle and is not proved to invert the printer",
    ],
)
