"""C14 - pipelines compose in a defined order: priority, then stage, then position.
One suite, "hist": histories of public API calls (bracketings of +, resolver.resolve with every
permutation of its argument list, backend initialisation, conversions with and without
re-initialisation) over 1..5 operand pipelines, each fresh or already used."""
import copy, itertools, json
from vlib.core import Property, Suite, cstr, clist, cbool, copt, cnat, cZ

SKEYS = ["index", "k"]
SVALS = ["win", "lin", "x"]
FIELDS = ["f", "g", "h"]
SUFFIXES = ["_a", "_b", "X"]
VALUES = ["v", "w", "1"]
IDS = ["i1", "i2", "i3", "q1", "q2", "z"]
VKEYS = ["x", "y"]
VVALS = ["1", "2", "3"]
EMBEDS = [("<", ">"), ("(", ")"), ("", "!"), ("", "")]
SEPS = [";", "", ", ", "\n"]
NAMES = ["a", "b", "B", "ab", "a1", "c", "_", "b0", "aB"]        # resolver identifiers (dict keys), ordered by code point
PNAMES = [None, "n", "m", "n", "zz", "A"]                          # `name` of the pipelines: unrelated to the identifiers, collide
FILES = ["p1.yml", "a.yml", "B.yml", "z9.yml"]
PRIOS = [-1, 0, 0, 0, 5, 5, 10, 100]
FMTS = ["default", "test", "state"]


# ------------------------------------------------------------------------------------------ generator
def g_cond(rng, p=0.3):
    """one optional rule condition: processing_state, or processing_item_applied for an identifier that
    transformation items AND post-processing items of any pipeline of the case may carry"""
    r = rng.random()
    if r < p * 0.7:
        return ["state", rng.choice(SKEYS), rng.choice(SVALS)]
    if r < p:
        return ["applied", rng.choice(IDS + ["s0"])]
    return None


def g_item(rng):
    r = rng.random()
    if r < 0.4:
        kind = ["set_state", rng.choice(SKEYS), rng.choice(SVALS)]
    elif r < 0.7:
        kind = ["suffix", rng.choice(SUFFIXES)]
    else:
        kind = ["add_cond", rng.choice(FIELDS), rng.choice(VALUES)]
    return {"id": rng.choice(IDS), "kind": kind, "cond": g_cond(rng)}


def g_post(rng, tpl=0.25):
    r = rng.random()
    if r < 1 - tpl:
        kind = ["embed"] + list(rng.choice(EMBEDS))
    elif r < 1 - tpl / 2:
        kind = ["tpl_state", rng.choice(SKEYS)]
    else:
        kind = ["tpl_var", rng.choice(VKEYS)]
    return {"id": rng.choice(IDS), "kind": kind, "cond": g_cond(rng, 0.2)}


def g_fin(rng):
    return {"sep": rng.choice(SEPS), "pre": rng.choice(["[", "", "{"]), "suf": rng.choice(["]", "", "}"])}


def g_def(rng, name, rich=True, tpl=0.25):
    ni = rng.choice([0, 1, 1, 2, 2, 3]) if rich else rng.choice([0, 0, 1])
    nq = rng.choice([0, 0, 1, 1, 2]) if rich else rng.choice([0, 0, 1])
    nf = rng.choice([0, 0, 0, 1, 1, 2]) if rich else rng.choice([0, 0, 0, 1])
    vs = []
    for k in rng.sample(VKEYS, rng.choice([0, 1, 1, 2])):
        vs.append([k, rng.choice(VVALS)])
    return {"items": [g_item(rng) for _ in range(ni)], "post": [g_post(rng, tpl) for _ in range(nq)],
            "fin": [g_fin(rng) for _ in range(nf)], "vars": vs, "prio": rng.choice(PRIOS), "name": name}


MAXFIN = 3      # every concat finalizer after the first joins the CHARACTERS of the previous output: keep outputs small
MAXOUT = 20000


def ofs(case):
    return [case["of"][f] for f in FMTS]


def number(case):
    """give every item / post-processing item / finalizer object its identity"""
    nf = 0
    for d in case["defs"] + [case["bk"]] + ofs(case):
        keep = []
        for f in d["fin"]:
            if nf < MAXFIN:
                keep.append(f); nf += 1
        d["fin"] = keep
    for ident, ent in case["tab"]:
        for d in ([] if ent[0] == "obj" else ent[1] if ent[0] == "seq" else [ent[1]]):
            keep = []
            for f in d["fin"]:
                if nf < MAXFIN:
                    keep.append(f); nf += 1
            d["fin"] = keep
    u = 1
    for d in case["defs"] + [case["bk"]] + ofs(case):
        for part in ("items", "post", "fin"):
            for x in d[part]:
                x["uid"] = u
                u += 1
    return case


def g_base(rng, n=None, tpl=0.25, heavy=False, fmtsdiff=False, chain=False):
    n = n or rng.choice([1, 2, 2, 3, 3, 3, 4, 4, 5])
    idents = rng.sample(NAMES, n)
    mode = rng.random()
    if mode < 0.25:                       # identifier == pipeline name (from_pipeline_list style)
        pnames = list(idents)
    elif mode < 0.5:                      # names in the opposite order of the identifiers
        order = sorted(range(n), key=lambda i: idents[i])
        pn = sorted(rng.sample(["n1", "n2", "n3", "n4", "n5", "n6"], n), reverse=True)
        pnames = [None] * n
        for r, i in enumerate(order):
            pnames[i] = pn[r]
    else:                                 # colliding / missing names
        pnames = [rng.choice(PNAMES) for _ in range(n)]
    defs = [g_def(rng, pnames[i], tpl=tpl) for i in range(n)]
    if rng.random() < 0.5:                # many equal priorities
        p0 = rng.choice(PRIOS)
        for d in defs:
            if rng.random() < 0.7:
                d["prio"] = p0
    if heavy:                             # stage order: several post-processing items and finalizers per pipeline
        for d in defs:
            while len(d["post"]) < 2:
                d["post"].append(g_post(rng, 0.1))
            if rng.random() < 0.6:
                d["fin"].append(g_fin(rng))
    tab = [[idents[i], ["obj", i]] for i in range(n)]
    extra = [x for x in NAMES if x not in idents]
    rng.shuffle(extra)
    total = n
    for _ in range(rng.choice([0, 0, 1, 1, 2])):         # callables: a fresh pipeline at every resolution
        if total < 5 and extra:
            d = g_def(rng, rng.choice(PNAMES), rich=rng.random() < 0.5, tpl=0)
            d["prio"] = rng.choice([defs[0]["prio"], rng.choice(PRIOS)])
            tab.append([extra.pop(), ["call", d]]); total += 1
    for fn in rng.sample(FILES, rng.choice([0, 0, 1, 1, 2])):   # YAML files found by path; `name:` differs from the file name
        if total < 5:
            d = g_def(rng, rng.choice(PNAMES), rich=rng.random() < 0.5, tpl=0)
            d["prio"] = rng.choice([defs[0]["prio"], rng.choice(PRIOS)])
            tab.append([fn, ["file", d]]); total += 1
    rng.shuffle(tab)
    # make (priority) ties and state dependencies likely
    if n >= 2 and rng.random() < 0.5:
        defs[1]["prio"] = defs[0]["prio"]
    if rng.random() < 0.6:
        defs[0]["items"].insert(0, {"id": "s0", "kind": ["set_state", "index", rng.choice(SVALS)], "cond": None})
    bk = g_def(rng, None, rich=False, tpl=0) if rng.random() < 0.4 else {"items": [], "post": [], "fin": [], "vars": [], "prio": 0, "name": None}
    empty = lambda: {"items": [], "post": [], "fin": [], "vars": [], "prio": 0, "name": None}
    fmt = rng.choice(FMTS)
    of = {f: empty() for f in FMTS}
    if fmtsdiff:                          # three different, observable output-format pipelines
        for k, f in enumerate(FMTS):
            d = g_def(rng, None, rich=False, tpl=0)
            d["fin"] = []
            r = rng.random()
            if r < 0.5:
                d["items"].append({"id": "o" + f, "kind": ["add_cond", "o", f], "cond": None})
            elif r < 0.8:
                d["post"].append({"id": "o" + f, "kind": ["embed", "", "~" + f], "cond": None})
            else:
                d["vars"] = [["x", f]]
                d["post"].append({"id": "o" + f, "kind": ["tpl_var", "x"], "cond": None})
            of[f] = d
        if rng.random() < 0.3:
            of[rng.choice(FMTS)]["fin"].append(g_fin(rng))
    else:
        if rng.random() < 0.4:
            of[fmt] = g_def(rng, None, rich=False, tpl=0)
        if rng.random() < 0.15:
            of[rng.choice(FMTS)] = g_def(rng, None, rich=False, tpl=0)
    nr = rng.choice([1, 1, 2, 2, 3] if chain else [1, 1, 2])
    rules = [{"f": rng.choice(FIELDS), "v": rng.choice(VALUES), "two": rng.random() < (0.6 if chain else 0.25)} for _ in range(nr)]
    if chain:
        # processing_item_applied conditions that refer to EARLIER items: transformation items and post-processing
        # items, of the same pipeline, of another operand / resolver entry, of another stage (backend / format)
        pipes = defs + [bk] + [of[f] for f in FMTS] + [d for _, e in tab if e[0] != "obj" for d in (e[1] if e[0] == "seq" else [e[1]])]
        marks = ["[ ", "{", "<<", "(", "~", "#", "@", "|", "/", "%", "^", "="]
        k = 0
        for d in pipes:
            if rng.random() < 0.75:
                d["post"].insert(rng.randint(0, len(d["post"])), {"id": "e%d" % k, "kind": ["embed", marks[k % len(marks)], ""], "cond": None})
                k += 1
            if rng.random() < 0.5:
                d["items"].insert(rng.randint(0, len(d["items"])), {"id": "t%d" % k, "kind": ["add_cond", "m", "t%d" % k], "cond": None})
                k += 1
        refs = ["e%d" % j for j in range(k)] + ["t%d" % j for j in range(k)] + ["s0"]
        for d in pipes:
            if rng.random() < 0.8:
                tgt = rng.choice(refs)
                kind = ["embed", "", " ]" + tgt] if rng.random() < 0.8 else ["tpl_var", "backend"]
                d["post"].insert(rng.randint(0, len(d["post"])), {"id": "c" + tgt, "kind": kind, "cond": ["applied", tgt]})
            if rng.random() < 0.4:
                tgt = rng.choice(refs)
                d["items"].insert(rng.randint(0, len(d["items"])), {"id": "d" + tgt, "kind": ["suffix", "_" + tgt], "cond": ["applied", tgt]})
    return {"fmt": fmt, "defs": defs, "tab": tab, "bk": bk, "of": of, "rules": rules, "prog": []}


def bracketings(seq):
    if len(seq) == 1:
        return [seq[0]]
    out = []
    for k in range(1, len(seq)):
        for a in bracketings(seq[:k]):
            for b in bracketings(seq[k:]):
                out.append([a, b])
    return out


def preuse(rng, n, p):
    """operands used once before the composition under test: in a conversion of the other backend
    instance, or as operand of another sum"""
    ops = []
    for i in range(n):
        if rng.random() < p:
            if n == 1 or rng.random() < 0.5:
                ops.append(["convert", True, i])
            else:
                j = rng.choice([x for x in range(n) if x != i])
                ops.append(["tree", [i, j] if rng.random() < 0.5 else [j, i]])
    return ops


def later_op(rng, case, nregs, s):
    n = len(case["defs"])
    r = rng.random()
    if r < 0.3:
        return ["tree", [rng.randrange(n), rng.randrange(nregs)]]
    if r < 0.45:
        sp = [e[0] for e in case["tab"]]
        return ["resolve", rng.sample(sp, rng.randint(1, len(sp)))]
    if r < 0.6:
        return ["init", True, s]
    if r < 0.7:
        return ["init", True, None]
    if r < 0.85:
        return ["convert", True, rng.randrange(nregs)]
    return ["tree", [s, rng.randrange(n)]]


def max_fins(c):
    """largest number of finalizers any initialised pipeline of the history has (callables / files named
    several times contribute once per instantiation)"""
    fins = [len(d["fin"]) for d in c["defs"]]
    ent = {}
    for k, e in [x for x in c["tab"] if x[1][0] == "file"] + [x for x in c["tab"] if x[1][0] != "file"]:
        ent[k] = fins[e[1]] if e[0] == "obj" else max(len(d["fin"]) for d in e[1]) if e[0] == "seq" else len(e[1]["fin"])
    cls = len(c["bk"]["fin"]) + max(len(d["fin"]) for d in ofs(c))
    worst = 0

    def tf(t):
        return fins[t] if isinstance(t, int) else tf(t[0]) + tf(t[1])
    try:
        for o in c["prog"]:
            if o[0] == "tree": fins.append(tf(o[1]))
            elif o[0] == "resolve": fins.append(sum(ent[s] for s in o[1]))
            elif o[0] == "sum": fins.append(sum(fins[i] for i in o[1]))
            elif o[0] in ("init", "convert"): worst = max(worst, cls + (fins[o[2]] if o[2] is not None else 0))
    except (KeyError, IndexError):
        pass
    return worst


def with_prog(base, prog):
    """operations without an explicit output format get the format of the base case"""
    c = copy.deepcopy(base)
    f = c["fmt"]
    c["prog"] = [list(o) + [f] if (o[0] in ("init", "convert") and len(o) == 3) or (o[0] == "run" and len(o) == 2) else list(o)
                 for o in prog]
    return c


def gen_hist(tier, rng):
    quick = tier == "quick"
    out = []
    nbase = 30 if quick else 200
    for bi in range(nbase):
        base = number(g_base(rng, tpl=0.12, heavy=(bi % 5 == 4), chain=(bi % 3 == 1)))
        n = len(base["defs"])
        specs = [e[0] for e in base["tab"]]
        m = len(specs)
        oid = {e[1][1]: e[0] for e in base["tab"] if e[1][0] == "obj"}      # operand index -> identifier
        fresh = [e[0] for e in base["tab"] if e[1][0] != "obj"]
        # --- every permutation of the resolver's argument list (<= 120)
        perms = list(itertools.permutations(specs))
        if quick and len(perms) > 24:
            perms = rng.sample(perms, 24)
        for pi, perm in enumerate(perms):
            pre = preuse(rng, n, 0.0 if pi % 3 == 0 else 0.4)
            k = n + sum(1 for o in pre if o[0] == "tree")
            out.append(with_prog(base, pre + [["resolve", list(perm)], ["convert", False, k]]))
        # --- permutations of sub-lists of the table
        if m >= 3:
            for _ in range(2 if quick else 4):
                sub = rng.sample(specs, rng.randint(2, m - 1))
                for perm in (list(itertools.permutations(sub)) if len(sub) <= 3 else [rng.sample(sub, len(sub)) for _ in range(6)]):
                    out.append(with_prog(base, [["resolve", list(perm)], ["convert", False, n]]))
        # --- every bracketing of + (<= 14), in argument order and in one more order; sum() of the same list
        orders = [list(range(n))]
        if n >= 2:
            orders.append(rng.sample(range(n), n))
        for oi, order in enumerate(orders):
            bs = bracketings(order)
            if quick and len(bs) > 5 and oi == 1:
                bs = rng.sample(bs, 5)
            for ti, t in enumerate(bs):
                pre = preuse(rng, n, 0.0 if ti % 2 == 0 else 0.4)
                k = n + sum(1 for o in pre if o[0] == "tree")
                if isinstance(t, int):
                    out.append(with_prog(base, pre + [["convert", False, t]]))
                else:
                    out.append(with_prog(base, pre + [["tree", t], ["convert", False, k]]))
            pre = preuse(rng, n, 0.3 * oi)
            k = n + sum(1 for o in pre if o[0] == "tree")
            out.append(with_prog(base, pre + [["sum", order], ["convert", False, k]]))
        # --- conversion without re-initialisation, after somebody else touched the operands
        for _ in range(3 if quick else 8):
            comp = ["resolve", rng.sample(specs, m)] if rng.random() < 0.5 else ["tree", rng.choice(bracketings(rng.sample(range(n), n)))]
            prog = [comp, ["init", False, n]]
            nregs = n + 1
            for _ in range(rng.choice([0, 1, 1, 2])):
                o = later_op(rng, base, nregs, n)
                prog.append(o)
                if o[0] in ("tree", "resolve", "sum"):
                    nregs += 1
            prog.append(["run", False])
            out.append(with_prog(base, prog))
        # --- resolving the same pipeline objects more than once
        if m >= 2:
            p1, p2 = rng.sample(specs, m), rng.sample(specs, m)
            out.append(with_prog(base, [["resolve", p1], ["resolve", p2], ["convert", False, n + 1]]))
            out.append(with_prog(base, [["resolve", p1], ["init", False, n], ["resolve", p2], ["run", False]]))
            out.append(with_prog(base, [["resolve", p1], ["convert", False, n], ["resolve", p2], ["convert", False, n]]))
            sub = rng.sample(specs, rng.randint(1, m))
            out.append(with_prog(base, [["resolve", p1], ["resolve", sub], ["tree", [n, n + 1]], ["convert", False, n + 2]]))
        # --- the same callable / file named twice: two fresh pipelines with equal (priority, spec)
        for fsp in fresh[:2]:
            out.append(with_prog(base, [["resolve", [fsp, fsp]], ["convert", False, n]]))
            out.append(with_prog(base, [["resolve", [fsp] + rng.sample(specs, m) + [fsp]], ["convert", False, n]]))
            out.append(with_prog(base, [["resolve", [fsp]], ["resolve", [fsp]], ["tree", [n, n + 1]], ["convert", False, n + 2]]))
        # --- ties: a callable with a memory named twice - equal (priority, spec), different contents: stable order
        if bi % 2 == 0:
            seqb = copy.deepcopy(base)
            seqb["tab"] = [e for e in seqb["tab"] if e[1][0] == "obj"]
            pr = rng.choice(PRIOS + [seqb["defs"][0]["prio"]] * 3)
            ds = []
            for k in range(3):
                d = g_def(rng, rng.choice(PNAMES), rich=False, tpl=0)
                d["fin"] = []
                d["items"].insert(0, {"id": "t%d" % k, "kind": ["add_cond", "t", "c%d" % k], "cond": None})
                d["prio"] = pr
                ds.append(d)
            seqb["tab"].append(["sq", ["seq", ds]])
            osp = [e[0] for e in seqb["tab"] if e[1][0] == "obj"]
            out.append(with_prog(seqb, [["resolve", ["sq", "sq"]], ["convert", False, n]]))
            out.append(with_prog(seqb, [["resolve", ["sq", "sq", "sq"]], ["convert", False, n]]))
            for _ in range(3):
                mix = osp + ["sq", "sq"]
                rng.shuffle(mix)
                out.append(with_prog(seqb, [["resolve", mix], ["convert", False, n]]))
            out.append(with_prog(seqb, [["resolve", ["sq"]], ["resolve", ["sq", "sq"]], ["tree", [n + 1, n]], ["convert", False, n + 2]]))
        # --- hostile: the same object twice (also under two identifiers), unknown names, nothing at all
        h = rng.randrange(n)
        alias = copy.deepcopy(base)
        alias["tab"].append(["zz2", ["obj", h]])
        out.append(with_prog(alias, [["resolve", [oid[h], "zz2"]], ["convert", False, n]]))
        out.append(with_prog(alias, [["resolve", rng.sample(specs + ["zz2"], m + 1)], ["convert", False, n]]))
        out.append(with_prog(alias, [["resolve", ["zz2"]], ["convert", False, n]]))
        out.append(with_prog(base, [["tree", [h, h]], ["convert", False, n]]))
        out.append(with_prog(base, [["sum", [h, h]], ["convert", False, n]]))
        out.append(with_prog(base, [["sum", [h]], ["convert", False, n], ["convert", True, h]]))
        out.append(with_prog(base, [["resolve", [oid[h], oid[h]]], ["convert", False, n]]))
        out.append(with_prog(base, [["resolve", specs + ["nope"]], ["convert", False, n]]))
        out.append(with_prog(base, [["resolve", [base["defs"][h]["name"] or "None"]], ["convert", False, n]]))   # the pipeline's name is not its identifier
        out.append(with_prog(base, [["resolve", []], ["convert", False, n]]))
        out.append(with_prog(base, [["convert", False, None]]))
        out.append(with_prog(base, [["resolve", [oid[h]]], ["convert", False, n], ["convert", True, h]]))
        if n >= 2:
            out.append(with_prog(base, [["tree", [0, 1]], ["tree", [n, 0]], ["convert", False, n + 1]]))
            out.append(with_prog(base, [["tree", [0, 1]], ["tree", [1, 0]], ["convert", False, n + 1]]))
            out.append(with_prog(base, [["tree", [0, 1]], ["tree", [1, 0]], ["convert", False, n]]))
    # --- several conversions on ONE backend object: the combined pipeline is composed anew, for the requested
    #     format and the current user pipeline, by every convert() call; convert_rule() keeps what is there
    for bi in range(14 if quick else 150):
        base = number(g_base(rng, n=rng.choice([2, 2, 3]), tpl=0.1, fmtsdiff=True, chain=(bi % 2 == 0)))
        n = len(base["defs"])
        comp = ["tree", rng.choice(bracketings(list(range(n - 1))))]      # user pipeline: operands 0..n-2 -> register n
        ext = n - 1                                                        # operand kept aside
        for f1 in FMTS:                                                    # every ordered pair of formats
            for f2 in FMTS:
                out.append(with_prog(base, [comp, ["convert", False, n, f1], ["convert", False, n, f2]]))
        f1, f2, f3 = rng.choice(FMTS), rng.choice(FMTS), rng.choice(FMTS)
        g1 = rng.choice([f for f in FMTS if f != f1])
        for prog in [
            [comp, ["convert", False, n, f1], ["convert", False, ext, f1]],                 # user pipeline swapped
            [comp, ["convert", False, n, f1], ["convert", False, ext, g1]],                 # ... and the format too
            [comp, ["convert", False, n, f1], ["convert", False, None, f1]],                # ... removed
            [comp, ["convert", False, None, f1], ["convert", False, n, f1]],                # ... added
            [comp, ["convert", False, n, f1], ["tree", [n, ext]], ["convert", False, n + 1, f2]],   # ... extended
            [comp, ["convert", False, n, f1], ["convert", False, n, g1], ["convert", False, n, f1]],
            [comp, ["convert", False, n, f1], ["convert", False, ext, f2], ["convert", False, n, f3]],
            [comp, ["convert", False, n, f1], ["run", False, f1]],                          # convert() then convert_rule()
            [comp, ["convert", False, n, f1], ["convert", False, ext, g1], ["run", False, g1]],
            [comp, ["run", False, f1], ["convert", False, n, f1]],                          # convert_rule() first: initialises without user pipeline
            [comp, ["run", False, f1], ["convert", False, n, g1]],
            [comp, ["run", False, f1], ["convert", False, n, g1], ["run", False, g1]],
            [comp, ["init", False, n, f1], ["convert", False, n, g1]],
            [comp, ["init", False, n, f1], ["convert", False, ext, f1]],
            [comp, ["convert", False, n, f1], ["init", False, ext, g1], ["run", False, g1]],
            [comp, ["convert", False, n, f1], ["run", False, g1]],                          # D30 class: convert_rule with another format
            [comp, ["run", False, f1], ["run", False, g1]],                                 # D30 class
            [comp, ["convert", False, n, f1], ["convert", True, n, f2], ["convert", False, n, f3]],   # two backend objects
            [comp, ["convert", False, n, f1], ["convert", True, ext, g1], ["convert", False, ext, g1], ["convert", True, n, f1]],
        ]:
            out.append(with_prog(base, prog))
    # --- random histories
    for ri in range(250 if quick else 3000):
        base = number(g_base(rng, tpl=0.2, fmtsdiff=(ri % 3 == 0), chain=(ri % 4 == 1)))
        rf = lambda: ([rng.choice(FMTS)] if rng.random() < 0.5 else [])
        n = len(base["defs"])
        specs = [e[0] for e in base["tab"]]
        m = len(specs)
        prog, nregs, inited = [], n, set()
        for _ in range(rng.randint(1, 6)):
            r = rng.random()
            if r < 0.25:
                t = rng.choice(bracketings([rng.randrange(nregs) for _ in range(rng.randint(2, 4))]))
                prog.append(["tree", t]); nregs += 1
            elif r < 0.3:
                prog.append(["sum", [rng.randrange(nregs) for _ in range(rng.randint(1, 3))]]); nregs += 1
            elif r < 0.5:
                prog.append(["resolve", [rng.choice(specs) for _ in range(rng.randint(0, 3))] if rng.random() < 0.2
                             else rng.sample(specs, rng.randint(1, m))]); nregs += 1
            elif r < 0.7:
                b = rng.random() < 0.5
                prog.append(["init", b, rng.choice([None] + list(range(nregs)))] + rf()); inited.add(b)
            elif r < 0.85:
                b = rng.choice(sorted(inited)) if inited and rng.random() < 0.8 else rng.random() < 0.5
                prog.append(["run", b] + rf()); inited.add(b)
            else:
                b = rng.random() < 0.5
                prog.append(["convert", b, rng.choice([None] + list(range(nregs)))] + rf()); inited.add(b)
        if not inited or rng.random() < 0.5:
            prog.append(["convert", False, rng.choice([None] + list(range(nregs)))] + rf())
        else:
            prog.append(["run", rng.choice(sorted(inited))] + rf())
        out.append(with_prog(base, prog))
    # the empty query list: a collection without rules still passes through every finalizer of the composed pipeline, once,
    # in order (seed C14s1: finalize() returned an empty list as it was)
    def runs_initialised(c):
        """every convert_rule()+finalize() run happens on a backend whose pipeline was initialised before (with no rule to
        convert, nothing else would set last_processing_pipeline, which the harness reads)"""
        seen = set()
        for o in c["prog"]:
            if o[0] in ("init", "convert"): seen.add(o[1])
            elif o[0] == "run" and o[1] not in seen: return False
        return True
    for c in [c for c in out if runs_initialised(c)][::9 if quick else 6]:
        d = copy.deepcopy(c); d["rules"] = []
        out.append(d)
    # every concat finalizer after the first multiplies the output length: keep histories whose pipelines stay small
    return [c for c in out if max_fins(c) <= MAXFIN + 1]


# ------------------------------------------------------------------------------------------ Coq terms
def c_cond(c):
    if c is None: return "CNone"
    if c[0] == "state": return f"(CState {cstr(c[1])} {cstr(c[2])})"
    if c[0] == "applied": return f"(CApplied {cstr(c[1])})"
    raise ValueError(c)


def c_item(i):
    k = i["kind"]
    kk = {"set_state": "KSetState", "suffix": "KSuffix", "add_cond": "KAddCond"}[k[0]]
    return (f"{{| i_uid := {i.get('uid', 0)}; i_id := {cstr(i['id'])}; i_kind := {kk} {' '.join(cstr(x) for x in k[1:])}; "
            f"i_cond := {c_cond(i['cond'])} |}}")


def c_post(q):
    k = q["kind"]
    kk = {"embed": "PEmbed", "tpl_state": "PTplState", "tpl_var": "PTplVar"}[k[0]]
    return (f"{{| q_uid := {q.get('uid', 0)}; q_id := {cstr(q['id'])}; q_kind := {kk} {' '.join(cstr(x) for x in k[1:])}; "
            f"q_cond := {c_cond(q['cond'])} |}}")


def c_fin(f):
    return f"{{| f_uid := {f.get('uid', 0)}; f_sep := {cstr(f['sep'])}; f_pre := {cstr(f['pre'])}; f_suf := {cstr(f['suf'])} |}}"


def c_dict(kvs):
    return clist(f"({cstr(k)}, {cstr(v)})" for k, v in kvs)


def c_def(d):
    return (f"{{| d_items := {clist(c_item(i) for i in d['items'])}; d_post := {clist(c_post(q) for q in d['post'])}; "
            f"d_fin := {clist(c_fin(f) for f in d['fin'])}; d_vars := {c_dict(d['vars'])}; d_prio := {cZ(d['prio'])}; "
            f"d_name := {copt(cstr(d['name']) if d['name'] is not None else None)} |}}")


def c_tree(t):
    return f"(ILeaf {cnat(t)})" if isinstance(t, int) else f"(IPlus {c_tree(t[0])} {c_tree(t[1])})"


def c_u(u):
    return copt(cnat(u) if u is not None else None)


def c_op(o):
    if o[0] == "tree": return f"OpTree {c_tree(o[1])}"
    if o[0] == "resolve": return f"OpResolve {clist(cstr(s) for s in o[1])}"
    if o[0] == "sum": return f"OpSum {clist(cnat(i) for i in o[1])}"
    if o[0] == "init": return f"OpInit {cbool(o[1])} {c_u(o[2])} {c_fmt(o[3])}"
    if o[0] == "run": return f"OpRun {cbool(o[1])} {c_fmt(o[2])}"
    if o[0] == "convert": return f"OpConvert {cbool(o[1])} {c_u(o[2])} {c_fmt(o[3])}"
    raise ValueError(o)


SIGMA_TAGS = {"SigmaProcessingItemError": 20, "SigmaTransformationError": 21, "SigmaPipelineNotFoundError": 22}
CRASH_TAGS = {"KeyError": 30, "AttributeError": 31}


def c_result(r):
    if r is None:
        return "(Crash 98 : outcome result)"
    if "exc" in r:
        if r.get("sigma"):
            return f"(SigmaErr {SIGMA_TAGS.get(r['exc'], 99)} : outcome result)"
        return f"(Crash {CRASH_TAGS.get(r['exc'], 97)} : outcome result)"
    o = r["out"]
    if sum(len(x) for x in (o[1] if o[0] == "l" else [o[1]])) > MAXOUT:     # cannot be right (see MAXFIN); keep the Coq term small
        o = ["s", "<output longer than %d characters>" % MAXOUT]
    if o[0] == "l": out = f"OList {clist(cstr(x) for x in o[1])}"
    elif o[0] == "s": out = f"OStr {cstr(o[1])}"
    else: return "(Crash 96 : outcome result)"
    obs = clist(f"({clist(cbool(b) for b in a)}, {c_dict(st)})" for a, st in r["rules"])
    return (f"(Ok {{| o_out := {out}; o_rules := {obs}; o_ids := {clist(cstr(x) for x in r['ids'])}; "
            f"o_vars := {c_dict(r['vars'])} |}})")


def c_fmt(f):
    return {"default": "FDefault", "test": "FTest", "state": "FState"}[f]


def hist_to_coq(c, r):
    rules = clist(f"{{| r_field := {cstr(x['f'])}; r_value := {cstr(x['v'])}; r_two := {cbool(x['two'])} |}}" for x in c["rules"])
    # table order for the model: files are consulted only when the identifier is not in the dict (last entry of a key wins)
    ents = [e for e in c["tab"] if e[1][0] == "file"] + [e for e in c["tab"] if e[1][0] != "file"]
    def c_ent(e):
        if e[0] == "obj": return "RObj " + cnat(e[1])
        if e[0] == "seq": return "RSeq " + clist(c_def(d) for d in e[1])
        return "RCall " + c_def(e[1])
    tab = clist(f"({cstr(k)}, {c_ent(e)})" for k, e in ents)
    of = c["of"]
    return (f"(({clist(c_def(d) for d in c['defs'])}, {tab}, {c_def(c['bk'])}, "
            f"({c_def(of['default'])}, {c_def(of['test'])}, {c_def(of['state'])}), "
            f"{rules}, {clist(c_op(o) for o in c['prog'])}, {c_result(r)}) : hist_case)")


# ------------------------------------------------------------------------------------------ finding class
def observable(d):
    return len(d["items"]) + len(d["post"]) > 0


def stale_runs(c):
    """source-level recogniser of the input class of D18: some conversion WITHOUT re-initialisation
    (convert_rule on an already initialised backend) happens after another addition (a sum, a
    resolver call over >= 2 pipelines, or another backend's initialisation) involved a pipeline
    object whose items are part of that backend's pipeline. Complement of `owned` (premise of
    C14_behaviour_partial)."""
    n = len(c["defs"])
    leaves = [({i} if observable(c["defs"][i]) else set()) for i in range(n)]
    def cls(f):
        return ({"bk"} if observable(c["bk"]) else set()) | ({("of", f)} if observable(c["of"][f]) else set())
    ident = {}          # identifier -> operand index (None: callable / file, a fresh pipeline every time)
    for k, e in [x for x in c["tab"] if x[1][0] == "file"] + [x for x in c["tab"] if x[1][0] != "file"]:
        # callable / file / callable with memory: fresh pipelines, i.e. fresh item objects at every resolution
        ident[k] = e[1] if e[0] == "obj" else ("fresh", any(observable(d) for d in (e[1] if e[0] == "seq" else [e[1]])))
    last, stale = {}, {}

    def tl(t):
        return leaves[t] if isinstance(t, int) else tl(t[0]) | tl(t[1])

    def touch(ls, but=None):
        for b in last:
            if b != but and last[b] & ls:
                stale[b] = True
    try:
        for o in c["prog"]:
            if o[0] == "tree":
                ls = tl(o[1])
                if not isinstance(o[1], int):
                    touch(ls)
                leaves.append(ls)
            elif o[0] == "resolve":
                ls = set()
                for j, s in enumerate(o[1]):
                    if isinstance(ident[s], int):
                        ls |= leaves[ident[s]]
                    elif ident[s][1]:
                        ls.add(("inst", len(leaves), j))
                if len(o[1]) >= 2:
                    touch(ls)
                leaves.append(ls)
            elif o[0] == "sum":
                ls = set()
                for i in o[1]:
                    ls |= leaves[i]
                if len(o[1]) >= 2:
                    touch(ls)
                leaves.append(ls)
            elif o[0] in ("init", "convert"):
                ls = cls(o[3]) | (leaves[o[2]] if o[2] is not None else set())
                touch(ls, but=o[1])
                last[o[1]] = ls
                stale[o[1]] = False
            elif o[0] == "run":
                if o[1] not in last:          # convert_rule on a backend object without pipeline: initialises it (no user pipeline)
                    ls = cls(o[2])
                    touch(ls, but=o[1])
                    last[o[1]] = ls
                    stale[o[1]] = False
                if stale.get(o[1]):
                    return True
    except (KeyError, IndexError):
        return False
    return False


def fmt_mismatch_runs(c):
    """source-level recogniser of the input class of D30 (as far as C14 sees it): some convert_rule()
    call asks for a format other than the one the backend object's pipeline was built for by its last
    init_processing_pipeline()/convert()/first convert_rule(). Never true of convert() calls."""
    built = {}
    for o in c["prog"]:
        if o[0] in ("init", "convert"):
            built[o[1]] = o[3]
        elif o[0] == "run":
            if o[1] not in built:
                built[o[1]] = o[2]
            elif built[o[1]] != o[2]:
                return True
    return False


def known_hist(c, r):
    if stale_runs(c):
        return "D18-items-reowned-by-later-addition"
    if fmt_mismatch_runs(c):
        return "D30-C14-convert_rule-keeps-pipeline-of-other-format"
    return None


def stratum(c, r):
    kinds = "+".join(sorted({o[0] for o in c["prog"]}))
    res = "exc:" + r["exc"] if isinstance(r, dict) and "exc" in r else "ok"
    fm = {o[-1] for o in c["prog"] if o[0] in ("init", "convert", "run")}
    return f"{kinds}|{res}|{'stale' if stale_runs(c) else 'owned'}|{'fmtmismatch' if fmt_mismatch_runs(c) else ('fmts%d' % len(fm))}"


def mutate_hist(c, rng):
    out = []
    for k, o in enumerate(c["prog"]):
        if o[0] == "resolve" and len(o[1]) >= 2:
            for _ in range(3):
                out.append(with_prog(c, c["prog"][:k] + [["resolve", rng.sample(o[1], len(o[1]))]] + c["prog"][k + 1:]))
        if o[0] == "tree" and not isinstance(o[1], int):
            out.append(with_prog(c, c["prog"][:k] + [["tree", [o[1][1], o[1][0]]]] + c["prog"][k + 1:]))
    for k, o in enumerate(c["prog"]):
        if o[0] in ("init", "convert", "run"):
            for f in FMTS:
                if f != o[-1]:
                    d = copy.deepcopy(c); d["prog"][k][-1] = f; out.append(d)
    for di in range(len(c["defs"])):
        for part in ("items", "post", "fin"):
            for k in range(len(c["defs"][di][part])):
                d = copy.deepcopy(c); del d["defs"][di][part][k]; out.append(d)
    d = copy.deepcopy(c); d["rules"] = d["rules"][:1]; d["rules"][0]["two"] = not d["rules"][0]["two"]; out.append(d)
    return out


REQ = ["Base.Chars", "Base.Outcome", "Spec.AbsPipeline", "Model.Pipeline", "Run.C14run"]
PROPERTY = Property(
    pid="C14", props_file="Props/C14.v",
    suites=[Suite("hist", gen_hist, "run_hist", REQ, "judge_hist", hist_to_coq, known=known_hist,
                  mutate=mutate_hist, stratum=stratum, shard=150)],
    rule="histories of pipeline API calls over 1..5 operand pipelines (priorities incl. many ties; `name` of the pipelines unrelated to the "
         "resolver identifiers: equal, reversed order, colliding, missing), resolver tables built from dicts: identifier -> registered object | "
         "callable | callable with a memory (ties with different contents), plus YAML files found by path whose name: differs from the file name, "
         "aliases (one object under two identifiers); items set_state/field_name_suffix/add_condition and post-processing items embed / simple_template (reading "
         "pipeline.state or pipeline.vars), each with an optional rule condition processing_state or processing_item_applied - the latter "
         "referring to EARLIER transformation items and to EARLIER post-processing items of the same pipeline, of another operand of +, of "
         "another resolver entry, of the backend / output-format stage (chain family: uniquely marked embeds, up to 3 rules per conversion, "
         "60 % two-condition rules, so that the first query of each rule is distinguishable); concat finalizers (no conditions exist for "
         "finalizers in pySigma), vars; the backend's own "
         "and output-format pipeline: every permutation of the resolver argument list over all table entries (all 120 for 5 entries in the "
         "thorough tier, 24 sampled in quick) and of sub-lists, every bracketing of + (<= 14) in two operand orders and sum() of the same lists, "
         "operands fresh or used once (earlier conversion on another backend instance / earlier sum), resolving the same objects / callables / "
         "files twice, conversions without re-initialisation after a later addition (D18 class), p + p, sum([p, p]), duplicate/unknown resolver "
         "names, the pipeline's name used as spec, empty lists, stage-heavy pipelines (>= 2 post-processing items each, several finalizers), "
         "sequences of conversions on ONE backend object (two backend objects of one class live for the whole history): every ordered pair "
         "of output formats with three distinct observable output-format pipelines, user pipeline swapped / removed / added / extended "
         "between convert() calls, convert() then convert_rule() and the reverse, convert_rule() on a fresh backend object, init then "
         "convert with another format, convert_rule() with another format (D30 class); format and user pipeline chosen per call; "
         "random histories of <= 7 calls; 1-2 rules, one- and two-condition rules, formats default/test/state. Observed: Backend.convert() or "
         "convert_rule()+finalize() output, per-rule pipeline.applied and state, applied_ids, vars. non-trivial = the history contains a "
         "sum/resolve of >= 2 pipelines and >= 2 pipelines/definitions are non-empty; distinct by case hash",
    assumptions=["conversion of the restricted rule shape ({field: value} AND-ed with added conditions) by the verification backend "
                 "(TextQueryTestBackend with in-expressions switched off) is modelled as text (query_of), validated by the correspondence only",
                 "item semantics of set_state, field_name_suffix, add_condition, embed, simple_template, concat and the processing_state / "
                 "processing_item_applied rule conditions (embed and all transformation kinds mark the rule, simple_template does not) are modelled (a_item_step/a_post_step/fin_step), validated by the correspondence only; identifiers are non-empty",
                 "callables / YAML files / callables with a memory are modelled (fresh objects per resolution, Model.Pipeline.minst_all) and checked by the "
                 "correspondence; theorems C14_resolver_perm/_concat/_history_partial are stated for tables of registered objects, "
                 "C14_resolver_entries_perm/_order for all tables; a callable with a memory is modelled with the history-wide instantiation counter "
                 "(generator: it is then the only callable/file of the table)",
                 "not modelled: nested transformations/finalizers (own nested pipelines), Jinja templates, directory specs, allowed_backends/target check, correlation rules, backend_options, field-name tracking state"],
)
