"""C01, suite leaf: one detection-item leaf (field name, value after modifiers) rendered by a backend class.
The class attributes are exported by the implementation side as data; Model/Leaf.v renders the same leaf
from them (bit 1); the implementation's text is read by the target language's atom reader Spec/Atom.v and
compared with the source value (bit 2) - both inside Coq."""
import random
from vlib.core import cstr, clist, cbool, copt, cnat

FIELDS = ["f", "g", "field_1", "a b", "it's", "x\\", "\\'", "", "ü", "naïve field", "a«b", "»", "a.b", "cidr", "exists",
          "notexists", "a,b", "a=b", "a(b", "f ", " f", "f\n", "a\"b", "f!", "_", "1", "Ω", "a\tb", "a\\\\b", "'", "''", "f'g'h\\"]
STR_ALPHA = ["a", "b", "*", "?", "\\", " ", '"', "«", "»", "=", "~", "/", "'", "é", "%", "\n", "(", ","]
STRS = ["a", "ab", "a*", "*a", "*a*", "a*b", "a?b", "*", "**", "?", "x y", "A", "a\\*", "*a*b*", "", 'q"r', "p«q", "p»q", "c\\\\d",
        "=x", "~/", "==", "\"", "\"start", "say\"hi", "end\"", "\\", "\\\\", "a\\", "*\\", "\\*", "*?*", "?*", "*a?", "tab\there",
        "%ph%", "a%ph%b", "%ph", "é*", "«»", "» and «f=\"x\"»", "\" or «g=\"y", "*\"*", "a b*", " * ", "1", "true", "null"]
REGEXES = ["a.*b", "x/y", "^ab$", "a\\\\b", "(a|b)c", "a\\/b", "/", "//", "\\", "«x»", "a»b", "\\/", "é+", "a/b/c", "[/]", "", "a\\"]
CIDRS = ["10.0.0.0/8", "192.168.1.0/24", "10.1.2.3/32", "fe80::/10", "0.0.0.0/0", "::/0", "2001:db8::/32"]
NUMS = [0, 1, 5, -3, 42, 1.5, -0.25, 1e20, 10 ** 12, 1e-7]
QPATS = [None, None, None, ["^\\w*$", True], [".*\\s", False], ["^$", False]]


def gen_k(rng):
    return {"prec": ["not", "and", "or"], "parenthesize": False, "or_in": False, "and_in": False, "in_wild": False, "not_eq": False,
            "startswith": rng.random() < 0.7, "endswith": rng.random() < 0.7, "contains": rng.random() < 0.7,
            "allow_special": rng.random() < 0.4, "wildmatch": rng.random() < 0.5, "cs_variants": rng.random() < 0.6,
            "cidr_native": True, "explicit_not_exists": True, "qpat": rng.choice(QPATS), "fpat_overlap": rng.random() < 0.4}


def gen_str(rng):
    if rng.random() < 0.6:
        return rng.choice(STRS)
    return "".join(rng.choice(STR_ALPHA) for _ in range(rng.randint(0, 6)))


def gen_value(rng):
    r = rng.random()
    if r < 0.5:
        return {"t": "str", "s": gen_str(rng), "cased": rng.random() < 0.3}
    if r < 0.58:
        return {"t": "num", "n": rng.choice(NUMS)}
    if r < 0.62:
        return {"t": "bool", "b": rng.random() < 0.5}
    if r < 0.65:
        return {"t": "null"}
    if r < 0.77:
        return {"t": "re", "rx": rng.choice(REGEXES), "flags": sorted(rng.sample(["i", "m", "s"], rng.randint(0, 3)))}
    if r < 0.82:
        return {"t": "cidr", "cidr": rng.choice(CIDRS)}
    if r < 0.87:
        return {"t": "cmp", "n": rng.choice(NUMS), "op": rng.randrange(5)}
    if r < 0.90:
        return {"t": "cmpts", "n": rng.choice([0, 1, 30, 59]), "op": rng.randrange(5), "part": rng.randrange(6)}
    if r < 0.93:
        return {"t": "ts", "n": rng.choice([0, 1, 30, 59]), "part": rng.randrange(6)}
    if r < 0.96:
        return {"t": "exists", "b": rng.random() < 0.5}
    return {"t": "fieldref", "f2": rng.choice(FIELDS), "sw": rng.random() < 0.5, "ew": rng.random() < 0.5}


TEST_ATTRS = [{}, {"str_quote_pattern_negation": True}, {"add_escaped": "\\\"=", "filter_chars": "\n"}, {"re_flag_prefix": True},
              # a native CIDR template that uses every field the renderer offers
              # templates that render the value as a regular expression, with regex-specific escaped characters
              {"eq_expression": "{field}=~/{regex}/", "case_sensitive_match_expression": "{field} casematch /{regex}/",
               "startswith_expression": "{field}=~/^{regex}/", "case_sensitive_contains_expression": "{field} casecontains /{regex}/",
               "unbound_value_str_expression": "_=~/{regex}/", "add_escaped_re": "/#"},
              {"cidr_expression": "cidrmatch({field}, {value}, {network}/{prefixlen}, {netmask})"}]


def gen_leaf(tier, rng):
    n = 1500 if tier == "quick" else 12000
    out = []
    # every field name with a plain value, every string with a plain field, in the base configuration
    base = gen_k(random.Random(1)); base.update(qpat=None, startswith=True, endswith=True, contains=True, cs_variants=True, wildmatch=True)
    for f in FIELDS:
        out.append({"cfg": {"family": "vb", "k": base}, "field": f, "value": {"t": "str", "s": "v*", "cased": False}})
        out.append({"cfg": {"family": "vb", "k": base}, "field": f, "value": {"t": "num", "n": 1}})
        out.append({"cfg": {"family": "vb", "k": dict(base, fpat_overlap=True)}, "field": f, "value": {"t": "null"}})
        out.append({"cfg": {"family": "vb", "k": base}, "field": f, "value": {"t": "exists", "b": False}})
        out.append({"cfg": {"family": "vb", "k": base}, "field": "f", "value": {"t": "fieldref", "f2": f, "sw": False, "ew": False}})
    for s in STRS:
        for cased in (False, True):
            for q in (None, [".*\\s", False], ["^\\w*$", True]):
                out.append({"cfg": {"family": "vb", "k": dict(base, qpat=q)}, "field": "f", "value": {"t": "str", "s": s, "cased": cased}})
        out.append({"cfg": {"family": "vb", "k": base}, "field": None, "value": {"t": "str", "s": s, "cased": False}})
    for sv in ["a/b", "a#b*", "*a/b*", "x/", "/", "a.b", "a\\/b", "#*"]:
        for cased in (False, True):
            out.append({"cfg": {"family": "test", "attrs": TEST_ATTRS[-2]}, "field": "f", "value": {"t": "str", "s": sv, "cased": cased}})
        out.append({"cfg": {"family": "test", "attrs": TEST_ATTRS[-2]}, "field": None, "value": {"t": "str", "s": sv, "cased": False}})
    for cidr in CIDRS:
        out.append({"cfg": {"family": "test", "attrs": TEST_ATTRS[-1]}, "field": "f", "value": {"t": "cidr", "cidr": cidr}})
        out.append({"cfg": {"family": "vb", "k": base}, "field": "f", "value": {"t": "cidr", "cidr": cidr}})
    for rx in REGEXES:
        out.append({"cfg": {"family": "vb", "k": base}, "field": "a b", "value": {"t": "re", "rx": rx, "flags": ["i", "s"]}})
        out.append({"cfg": {"family": "vb", "k": base}, "field": None, "value": {"t": "re", "rx": rx, "flags": []}})
    while len(out) < n:
        r = rng.random()
        if r < 0.8:
            cfg = {"family": "vb", "k": gen_k(rng)}
        else:
            cfg = {"family": "test", "attrs": rng.choice(TEST_ATTRS)}
        v = gen_value(rng)
        f = rng.choice(FIELDS) if rng.random() < 0.7 else rng.choice(["f", "g"])
        if v["t"] in ("str", "num", "re") and rng.random() < 0.08:
            f = None
        out.append({"cfg": cfg, "field": f, "value": v})
    return out


# ---------------------------------------------------------------------------------------------------
def c_tpl(t):
    if t is None:
        return "None"
    return "(Some %s)" % clist(("SL %s" % cstr(x[1])) if x[0] == "L" else ("SB %s" % cstr(x[1])) if x[0] == "B" else ("SV %d" % x[1]) for x in t)


def c_ostr(x):
    return copt(None if x is None else cstr(x))


def c_lcfg(K):
    f, e = K["l_f"], K["l_e"]
    if f["quote"] is not None and len(f["quote"]) != 1:
        return None
    if e["esc"] is not None and len(e["esc"]) != 1:
        return None
    items = []
    items.append("l_f := {| f_quote := %s; f_escape := %s; f_escape_quote := %s |}" % (
        copt(None if f["quote"] is None else str(ord(f["quote"]))), c_ostr(f["escape"]), cbool(f["escape_quote"])))
    items.append("l_e := {| e_esc := %s; e_multi := %s; e_single := %s; e_add := %s; e_filter := %s |}" % (
        copt(None if e["esc"] is None else str(ord(e["esc"]))), c_ostr(e["multi"]), c_ostr(e["single"]), cstr(e["add"] or ""), cstr(e["filter"] or "")))
    items.append("l_quote := %s" % cstr(K["l_quote"] or ""))
    items.append("l_quote_pat := %s" % copt(None if K["l_quote_pat"] is None else cbool(K["l_quote_pat"])))
    items.append("l_add_escaped_re := %s" % cstr(K["l_add_escaped_re"] or ""))
    items.append("l_re_escape := %s" % clist(cstr(x) for x in K["l_re_escape"]))
    items.append("l_re_ec := %s" % cstr(K["l_re_ec"]))
    for b in ("l_re_eec", "l_re_flag_prefix", "l_sw_sp", "l_ew_sp", "l_ct_sp", "l_csw_sp", "l_cew_sp", "l_cct_sp", "l_ff_q1", "l_ff_q2"):
        items.append("%s := %s" % (b, cbool(K[b])))
    for o in ("l_re_fi", "l_re_fm", "l_re_fs", "l_true", "l_false"):
        items.append("%s := %s" % (o, c_ostr(K[o])))
    items.append("l_eq_token := %s" % cstr(K["l_eq_token"]))
    if K["l_cmp_ops"] is None:
        items.append("l_cmp_ops := None")
    else:
        a = [cstr(x) for x in K["l_cmp_ops"]]
        items.append("l_cmp_ops := Some (fun o => match o with CLt => %s | CLte => %s | CGt => %s | CGte => %s | CNeq => %s end)" % tuple(a))
    for t in ("l_eq", "l_neq", "l_sw", "l_nsw", "l_ew", "l_new", "l_ct", "l_nct", "l_wm", "l_csm", "l_csw", "l_ncsw", "l_cew", "l_ncew",
              "l_cct", "l_ncct", "l_re", "l_nre", "l_cidr", "l_ncidr", "l_cmp", "l_null", "l_exists", "l_nexists", "l_ff", "l_ffsw",
              "l_ffew", "l_ffct", "l_ts", "l_ub_str", "l_ub_num", "l_ub_re", "l_in"):
        items.append("%s := %s" % (t, c_tpl(K[t])))
    items.append("l_ts_map := %s" % clist("(%d, %s)" % (i, cstr(x)) for i, x in K["l_ts_map"]))
    items.append("l_or_in_op := %s" % cstr(K["l_or_in_op"] or ""))
    items.append("l_and_in_op := %s" % cstr(K["l_and_in_op"] or ""))
    items.append("l_list_sep := %s" % c_ostr(K["l_list_sep"]))
    return "{| " + "; ".join(items) + " |}"


def c_parts(ps):
    out, cur = [], None
    for p in ps:
        if p[0] == "L":
            if cur is None:
                cur = []
                out.append(cur)
            cur.append(p[1])
        else:
            cur = None
            out.append(p)
    r = []
    for x in out:
        if isinstance(x, list) and x and isinstance(x[0], str) and x[0] not in ("M", "S", "P"):
            r.append("PStr %s" % cstr("".join(x)))
        elif x[0] == "M":
            r.append("PMulti")
        elif x[0] == "S":
            r.append("PSingle")
        else:
            r.append("PPh %s" % cstr(x[1]))
    return clist(r)


CMP = ["CLt", "CLte", "CGt", "CGte", "CNeq"]


def c_fo(fo):
    return "(%s, %s)" % (clist(cnat(i) for i in fo[0]), cbool(fo[1]))


def c_lval(c, r):
    v, val = c["value"], r["val"]
    t = v["t"]
    if t == "str":
        return "LStr %s %s" % (cbool(val[0] == "cstr"), c_parts(val[1]))
    if t == "num":
        return "LNum %s" % cstr(val[1])
    if t == "bool":
        return "LBool %s" % cbool(v["b"])
    if t == "null":
        return "LNull"
    if t == "re":
        return "LRe %s %s %s %s" % (cstr(val[1]), cbool("i" in val[2]), cbool("m" in val[2]), cbool("s" in val[2]))
    if t == "cidr":
        return "LCidr %s %s %s %s" % tuple(cstr(x) for x in val[1:5])
    if t == "cmp":
        return "LCmp %s %s" % (CMP[val[1]], cstr(val[2]))
    if t == "cmpts":
        return "LCmpTs %s %d %s" % (CMP[val[1]], val[2], cstr(val[3]))
    if t == "ts":
        return "LTs %d %s" % (val[1], cstr(val[2]))
    if t == "exists":
        return "LExists %s" % cbool(v["b"])
    if t == "fieldref":
        return "LFieldRef %s %s %s %s" % (cstr(v["f2"]), c_fo(r["fo2"]), cbool(v["sw"]), cbool(v["ew"]))
    return "LOther"


SIGMA_TAGS = {"SigmaValueError": 1, "SigmaPlaceholderError": 2, "SigmaTypeError": 3}
CRASH_TAGS = {"NotImplementedError": 30, "KeyError": 31, "AttributeError": 32, "TypeError": 33}


def c_outcome(o):
    if "ok" in o:
        if not isinstance(o["ok"], str):
            return "Crash 97"
        return "Ok %s" % cstr(o["ok"])
    if o.get("sigma"):
        return "SigmaErr %d" % SIGMA_TAGS.get(o["exc"], 99)
    return "Crash %d" % CRASH_TAGS.get(o["exc"], 98)


def c_vbk(k):
    return ("{| k_sw := %s; k_ew := %s; k_ct := %s; k_special := %s; k_wm := %s; k_cs := %s; k_cidr := %s; k_nexists := %s; k_qpat := %s |}"
            % (cbool(k["startswith"]), cbool(k["endswith"]), cbool(k["contains"]), cbool(k["allow_special"]), cbool(k["wildmatch"]),
               cbool(k["cs_variants"]), cbool(k["cidr_native"]), cbool(k["explicit_not_exists"]),
               copt(None if not k.get("qpat") else cbool(k["qpat"][1]))))


def leaf_to_coq(c, r):
    if "exc" in r:          # the leaf could not even be constructed (e.g. invalid regular expression): not a case
        return None
    K = c_lcfg(r["K"])
    if K is None:
        return None
    kk = copt(c_vbk(c["cfg"]["k"])) if c["cfg"]["family"] == "vb" else "None"
    f = "None" if c["field"] is None else "(Some (%s, %s))" % (cstr(c["field"]), c_fo(r["fo"]))
    pm = "(%s, %s, %s, %s)" % tuple(cbool(x) for x in r["pm"])
    return ("{| lc_K := %s; lc_k := %s; lc_extra := %s; lc_f := %s; lc_pm := %s; lc_v := %s; lc_r := %s; lc_rn := %s |}"
            % (K, kk, cstr("".join(r["extra"])), f, pm, c_lval(c, r), c_outcome(r["r"]), c_outcome(r["rn"])))


def stratum_leaf(c, r):
    return "%s/%s/%s" % (c["cfg"]["family"], c["value"]["t"], "unbound" if c["field"] is None else "field")


def mutate_leaf(c, rng):
    out = []
    for _ in range(12):
        d = {"cfg": c["cfg"], "field": c["field"], "value": dict(c["value"])}
        x = rng.random()
        if x < 0.4 and d["field"] is not None:
            d["field"] = rng.choice(FIELDS)
        elif d["value"]["t"] == "str":
            d["value"]["s"] = gen_str(rng)
        elif d["value"]["t"] == "re":
            d["value"]["rx"] = rng.choice(REGEXES)
        else:
            d["value"] = gen_value(rng)
        out.append(d)
    return out


def known_leaf(c, r):
    if c["value"]["t"] == "cidr" and c["field"] is not None and ("," in c["field"] or "»" in c["field"]) and c["cfg"]["family"] == "vb":
        return "D4-native-cidr-raw-field-name"
    if c["field"] is None and c["value"]["t"] == "str" and c["value"].get("cased") and c["cfg"]["family"] == "vb":
        return "C01-unbound-cased-dropped"
    return None


def py_oracle_leaf(c, r):
    """the negated-template context leaves no trace on the backend class: the same leaf and sibling leaves of every
    operator shape render after it as before it"""
    if "exc" in r or c["field"] is None:
        return None
    if r.get("r2") != r.get("r"):
        return "the leaf renders differently after the negated-template context: %r then %r" % (r.get("r"), r.get("r2"))
    if r.get("sib0") != r.get("sib1"):
        d = [(a, b) for a, b in zip(r["sib0"], r["sib1"]) if a != b]
        return "sibling leaves render differently after the negated-template context: %r" % (d[:2],)
    return None


# ---------------------------------------------------------------------------------------------------
# suite inlist
def gen_inlist(tier, rng):
    n = 400 if tier == "quick" else 3000
    out = []
    base = gen_k(random.Random(1)); base.update(qpat=None)
    for f in FIELDS:
        out.append({"cfg": {"family": "vb", "k": base}, "field": f, "disj": True,
                    "values": [{"t": "str", "s": "a"}, {"t": "num", "n": 1}, {"t": "str", "s": "b*"}]})
    for s in STRS:
        out.append({"cfg": {"family": "vb", "k": base}, "field": "f", "disj": False,
                    "values": [{"t": "str", "s": s}, {"t": "str", "s": "x"}]})
        out.append({"cfg": {"family": "vb", "k": base}, "field": "f", "disj": True, "values": [{"t": "str", "s": s}]})
    while len(out) < n:
        cfg = {"family": "vb", "k": gen_k(rng)} if rng.random() < 0.8 else {"family": "test", "attrs": rng.choice(TEST_ATTRS)}
        vals = []
        for _ in range(rng.randint(1, 4)):
            if rng.random() < 0.7:
                vals.append({"t": "str", "s": gen_str(rng)})
            else:
                vals.append({"t": "num", "n": rng.choice(NUMS)})
        out.append({"cfg": cfg, "field": rng.choice(FIELDS) if rng.random() < 0.5 else "f", "disj": rng.random() < 0.6, "values": vals})
    return out


def inlist_to_coq(c, r):
    if "exc" in r:
        return None
    K = c_lcfg(r["K"])
    if K is None:
        return None
    kk = copt(c_vbk(c["cfg"]["k"])) if c["cfg"]["family"] == "vb" else "None"
    vals = []
    for (val, pm) in r["vals"]:
        if val[0] == "num":
            vals.append("(LNum %s, %s)" % (cstr(val[1]), cbool(pm)))
        else:
            vals.append("(LStr %s %s, %s)" % (cbool(val[0] == "cstr"), c_parts(val[1]), cbool(pm)))
    return ("{| ic_K := %s; ic_k := %s; ic_extra := %s; ic_f := %s; ic_fo := %s; ic_disj := %s; ic_vals := %s; ic_r := %s |}"
            % (K, kk, cstr("".join(r["extra"])), cstr(c["field"]), c_fo(r["fo"]), cbool(c["disj"]), clist(vals), c_outcome(r["r"])))


def stratum_inlist(c, r):
    return "%s/%s/%d" % (c["cfg"]["family"], "or" if c["disj"] else "and", len(c["values"]))
