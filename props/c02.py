"""C02 - condition text parses to the boolean function it spells.

Suites
  spell : cases are generated from an EXPRESSION (all shapes up to a leaf bound, random beyond),
          a detection-name set from a hostile pool, and a spelling (minimal / full / redundant
          parentheses, tight / normal / wide blanks).  bit 2 evaluates the Sigma grammar semantics of
          the generating expression (Spec.CondGrammar.sem) on the implementation's parse tree
          and truth table.
  raw   : arbitrary text (all short strings over a hostile alphabet, all short word sequences,
          random token soups, mutated spellings): acceptance / rejection and, where the reference
          reading of the specification (ref_parse: split at the last top-level operator) accepts,
          its truth table.
"""
import itertools
from vlib.core import Property, Suite, cstr, clist, cbool, copt

# ----------------------------------------------------------------------------- names
REFERABLE = ["notepad", "android", "oracle", "all_x", "any1", "of", "them_", "1st", "a-b", "_x",
             "sel_1", "sel_2", "nota", "not_", "ornot", "and-", "-a", "1", "any", "all", "them",
             "of_", "x", "_filt_y", "NOT", "And", "or1", "notnot", "sel-3", "__", "0", "selection"]
UNREFERABLE = ["a b", "é", "", "x*", "a\nb", "a.b", "sel.1", "_\n", "(a)", "sel_1 "]
RESERVED = ["not", "and", "or"]
QUANTS = ["1", "any", "all"]
PATC = set("abcdefghijklmnopqrstuvwxyzABCDEFGHIJKLMNOPQRSTUVWXYZ0123456789_*")
IDC = set("abcdefghijklmnopqrstuvwxyzABCDEFGHIJKLMNOPQRSTUVWXYZ0123456789_-")


def patterns_for(dets, rng):
    """patterns with leading / trailing / inner stars derived from the names, plus fixed ones"""
    fixed = ["them", "*", "_*", "zz*", "*_*", "**", "them*", "*1", "s*_*"]
    out = ["them", "*", rng.choice(fixed)]
    for n in dets:
        core = "".join(c for c in n if c in PATC and c != "*")
        if not core:
            continue
        k = rng.randint(1, len(core))
        out += [core[:k] + "*", "*" + core[-k:], core[0] + "*" + core[-1], core, core[:k] + "*" + core[k:],
                "*" + core[k // 2:k] + "*"]
    return [p for p in out if p and set(p) <= PATC]


def pick_dets(rng, n=None):
    n = n or rng.choice([1, 2, 2, 3, 3, 3, 4, 4, 5])
    pool = REFERABLE if rng.random() < 0.7 else REFERABLE + UNREFERABLE
    dets = rng.sample(pool, min(n, len(pool)))
    if rng.random() < 0.05:
        dets[rng.randrange(len(dets))] = rng.choice(RESERVED)   # a detection called like an operator
    return dets


# ----------------------------------------------------------------------------- expressions
def shapes(k):
    """all expression shapes with k leaves: binary and/or nodes, every node optionally negated"""
    if k == 1:
        base = [("leaf",)]
    else:
        base = []
        for i in range(1, k):
            for a in shapes(i):
                for b in shapes(k - i):
                    base.append(("and", a, b))
                    base.append(("or", a, b))
    return base + [("not", x) for x in base]


_SHAPES = {}


def shapes_cached(k):
    if k not in _SHAPES:
        _SHAPES[k] = shapes(k)
    return _SHAPES[k]


def random_shape(rng, k):
    if k == 1:
        e = ("leaf",)
    else:
        i = rng.randint(1, k - 1)
        e = (rng.choice(["and", "or"]), random_shape(rng, i), random_shape(rng, k - i))
    r = rng.random()
    if r < 0.25:
        e = ("not", e)
    elif r < 0.3:
        e = ("not", ("not", e))
    return e


def fill(shape, dets, rng, pats):
    if shape[0] == "leaf":
        r = rng.random()
        referable = [n for n in dets if n and set(n) <= IDC and n not in RESERVED]
        if r < 0.62 and referable:
            return ("id", rng.choice(referable))
        if r < 0.64:
            return ("id", rng.choice([n for n in REFERABLE if n not in dets]))   # undefined name
        return ("sel", rng.choice(QUANTS), rng.choice(pats))
    if shape[0] == "not":
        return ("not", fill(shape[1], dets, rng, pats))
    return (shape[0], fill(shape[1], dets, rng, pats), fill(shape[2], dets, rng, pats))


LEVEL = {"id": 0, "sel": 0, "not": 1, "and": 2, "or": 3}


def tokens(e, maxlevel, style, rng):
    k = e[0]
    if k == "id":
        ts = [e[1]]
    elif k == "sel":
        ts = [e[1], "of", e[2]]
    elif k == "not":
        ts = ["not"] + tokens(e[1], 1, style, rng)
    elif k == "and":
        ts = tokens(e[1], 2, style, rng) + ["and"] + tokens(e[2], 1, style, rng)
    else:
        ts = tokens(e[1], 3, style, rng) + ["or"] + tokens(e[2], 2, style, rng)
    need = LEVEL[k] > maxlevel
    extra = 0
    if style == "full" and LEVEL[k] > 0:
        need = True
    if style == "redundant":
        r = rng.random()
        extra = 1 if r < 0.3 else (2 if r < 0.36 else 0)
    for _ in range((1 if need else 0) + extra):
        ts = ["("] + ts + [")"]
    return ts


BLANKS = [" ", "  ", "\t", "\n", " \t ", "\r\n", "   "]


def layout(ts, blank, rng):
    out = []
    prev = None
    for t in ts:
        word_meet = prev is not None and prev not in "()" and t not in "()"
        if blank == "tight":
            sep = " " if word_meet else ""
        elif blank == "normal":
            sep = "" if (prev is None or prev == "(" or t == ")") else " "
        else:
            sep = rng.choice(BLANKS) if (word_meet or rng.random() < 0.7) else ""
        out.append(sep)
        out.append(t)
        prev = t
    s = "".join(out)
    if blank == "wide":
        s = rng.choice(["", " ", "\t"]) + s + rng.choice(["", " ", "\n"])
    return s


MAX_DEPTH = 9      # CPython's recursion limit is reached at about 15 nesting levels (finding C02-deep-nesting-rejected)


def nesting(ts):
    d = m = run = 0
    for t in ts:
        if t == "(":
            d += 1
        elif t == ")":
            d -= 1
        run = run + 1 if t in ("(", "not") else 0
        m = max(m, d, run)
    return m


def spell(e, rng, paren=None, blank=None):
    paren = paren or rng.choice(["min", "min", "full", "redundant"])
    blank = blank or rng.choice(["normal", "normal", "tight", "wide"])
    ts = tokens(e, 3, paren, rng)
    if nesting(ts) > MAX_DEPTH:
        ts = tokens(e, 3, "min", rng)
    return layout(ts, blank, rng)


def cexpr(e):
    k = e[0]
    if k == "id":
        return f"(EId {cstr(e[1])})"
    if k == "sel":
        q = {"1": "Q1", "any": "QAny", "all": "QAll"}[e[1]]
        return f"(ESel {q} {cstr(e[2])})"
    if k == "not":
        return f"(ENot {cexpr(e[1])})"
    return f"({'EAnd' if k == 'and' else 'EOr'} {cexpr(e[1])} {cexpr(e[2])})"


def gen_spell(tier, rng):
    out = []

    def add(shape, paren=None, blank=None):
        dets = pick_dets(rng)
        pats = patterns_for(dets, rng)
        e = fill(shape, dets, rng, pats)
        if nesting(tokens(e, 3, "min", rng)) > MAX_DEPTH:
            return
        out.append({"dets": dets, "e": e, "s": spell(e, rng, paren, blank)})

    kmax = 3 if tier == "quick" else 4
    reps = 3 if tier == "quick" else 4
    for k in range(1, kmax + 1):
        for sh in shapes_cached(k):
            for paren in ["min", "full", "redundant"]:
                add(sh, paren, None)
            for _ in range(reps - 3):
                add(sh)
    if tier == "quick":
        for sh in rng.sample(shapes_cached(4), 500):
            add(sh)
    else:
        for _ in range(3000):
            add(random_shape(rng, 5))
    for _ in range(300 if tier == "quick" else 4000):
        add(random_shape(rng, rng.randint(5, 12)))
    # every hostile name alone, negated, and next to every operator
    for n in REFERABLE:
        others = [m for m in REFERABLE if m != n]
        m = rng.choice(others)
        for e in [("id", n), ("not", ("id", n)), ("and", ("id", n), ("id", m)), ("or", ("id", m), ("id", n)),
                  ("and", ("not", ("id", m)), ("not", ("id", n))), ("or", ("id", n), ("and", ("id", n), ("id", m)))]:
            for blank in ["normal", "tight"]:
                out.append({"dets": [n, m], "e": e, "s": spell(e, rng, "min", blank)})
    # every selector form over a fixed rule with tool-injected names
    dets = ["sel_1", "sel_2", "_filt_ab_sel_1", "filter", "_x"]
    for q in QUANTS:
        for p in ["them", "*", "sel*", "sel_*", "*1", "s*1", "_*", "_filt*", "*sel*", "*_*", "filter", "f*r", "nope*", "sel_1", "**", "_x", "*x"]:
            e = ("sel", q, p)
            out.append({"dets": dets, "e": e, "s": spell(e, rng, "min", "normal")})
            e2 = ("and", ("id", "filter"), ("not", e))
            out.append({"dets": dets, "e": e2, "s": spell(e2, rng)})
    return out


# ----------------------------------------------------------------------------- raw text
CHARS = ["a", "n", "o", "t", "d", "r", "1", "f", "*", "_", "-", "(", ")", " "]
WORDS = ["a", "b", "not", "and", "or", "1", "of", "them", "all", "any", "a*", "notepad", "a-b", "of*", "(", ")",
         "android", "*", "_x", "x|y", "a$", "é", "AND", "1of", "of*a", "not(", ")or", "\x0b", "-a", "-", "and-", "ofa"]
RAW_DETS = ["a", "b", "notepad", "android", "_x", "a-b", "not", "1", "of"]


def gen_raw(tier, rng):
    out = []
    kc = 3 if tier == "quick" else 4
    for k in range(kc + 1):
        for t in itertools.product(CHARS, repeat=k):
            out.append({"dets": ["a", "not", "_d", "1", "of"], "s": "".join(t)})
    if tier != "quick":
        sub = ["a", "n", "o", "t", "1", "f", "*", "(", ")", " "]
        for t in itertools.product(sub, repeat=5):
            if rng.random() < 0.08:
                out.append({"dets": ["a", "not", "_d", "1", "of"], "s": "".join(t)})
    kw = 3 if tier == "quick" else 4
    words = WORDS[:16]
    for k in range(1, kw + 1):
        for t in itertools.product(words, repeat=k):
            if k == 4 and rng.random() < 0.9:
                continue
            out.append({"dets": RAW_DETS, "s": " ".join(t)})
    for _ in range(1500 if tier == "quick" else 10000):
        n = rng.randint(1, 9)
        ts = [rng.choice(WORDS) for _ in range(n)]
        s = "".join(t + rng.choice(["", " ", " ", "  ", "\t"]) for t in ts)
        out.append({"dets": RAW_DETS, "s": s})
    # valid spellings damaged by one edit
    for _ in range(600 if tier == "quick" else 4000):
        dets = pick_dets(rng)
        e = fill(random_shape(rng, rng.randint(1, 5)), dets, rng, patterns_for(dets, rng))
        if nesting(tokens(e, 3, "min", rng)) > MAX_DEPTH:
            continue
        s = spell(e, rng)
        out += [{"dets": dets, "s": m} for m in rng.sample(edits(s), 2)]
    return out


def edits(s):
    out = []
    for i in range(len(s) + 1):
        for ch in ["(", ")", " ", "*", "-", "n", "|"]:
            out.append(s[:i] + ch + s[i:])
    for i in range(len(s)):
        out.append(s[:i] + s[i + 1:])
    for i in range(len(s) - 1):
        out.append(s[:i] + s[i + 1] + s[i] + s[i + 2:])
    return out


# ----------------------------------------------------------------------------- encoding for Coq
QC = {"1": "Q1", "any": "QAny", "all": "QAll"}


def cptree(t):
    k = t[0]
    if k == "id":
        return f"(PId {cstr(t[1])})"
    if k == "sel":
        if t[1] not in QC:
            return None
        return f"(PSel {QC[t[1]]} {cstr(t[2])})"
    if k == "not":
        if len(t) != 2:
            return None
        a = cptree(t[1])
        return None if a is None else f"(PNot {a})"
    if k in ("and", "or"):
        args = [cptree(a) for a in t[1:]]
        if any(a is None for a in args):
            return None
        return f"({'PAnd' if k == 'and' else 'POr'} {clist(args)})"
    return None


def cctree(t, dets):
    """-> Coq term of type option ctree"""
    if t is None:
        return "None"
    k = t[0]
    if k == "leaf":
        if not (0 <= t[1] < len(dets)):
            return "BAD"
        return f"(Some (CLeaf {cstr(dets[t[1]])}))"
    if k == "not":
        if len(t) != 2:
            return "BAD"
        return f"(Some (CNot {cctree(t[1], dets)}))"
    if k in ("and", "or"):
        return f"(Some ({'CAnd' if k == 'and' else 'COr'} {clist(cctree(a, dets) for a in t[1:])}))"
    return "BAD"


ERR = {"SigmaConditionError": 4}


def cexc(r):
    if r.get("sigma"):
        return f"(SigmaErr {ERR.get(r['exc'], 99)})"
    return "(Crash 1)"


def impl_terms(c, r):
    """(parse, post, table) as Coq terms; an unencodable implementation answer becomes Crash 2 so that it
    can never agree with the model"""
    if "exc" in r:            # the whole run failed (detections could not be built ...)
        return "(Crash 3 : outcome ptree)", "(Crash 3 : outcome (option ctree))", "(None : option (list bool))"
    p = r["parse"]
    if isinstance(p, dict):
        cp = cexc(p)
    else:
        t = cptree(p)
        cp = "(Crash 2)" if t is None else f"(Ok {t})"
    q = r["post"]
    if "exc" in q:
        cq = cexc(q)
    else:
        t = cctree(q["t"], c["dets"])
        cq = "(Crash 2)" if "BAD" in t else f"(Ok {t})"
    if not r.get("stable", True):
        cq = "(Crash 4)"     # second access to .parsed differed from the first
    tb = r["table"]
    ct = "None" if tb is None else f"(Some {clist(cbool(b) for b in tb)})"
    return f"({cp} : outcome ptree)", f"({cq} : outcome (option ctree))", f"({ct} : option (list bool))"


def spell_to_coq(c, r):
    cp, cq, ct = impl_terms(c, r)
    return f"({clist(cstr(n) for n in c['dets'])}, {cstr(c['s'])}, {cexpr(tuple_e(c['e']))}, {cp}, {cq}, {ct})"


def raw_to_coq(c, r):
    cp, cq, ct = impl_terms(c, r)
    return f"({clist(cstr(n) for n in c['dets'])}, {cstr(c['s'])}, {cp}, {cq}, {ct})"


def tuple_e(e):
    return tuple(tuple_e(x) if isinstance(x, (list, tuple)) else x for x in e)


# ----------------------------------------------------------------------------- known finding: empty selector
def glob(p, n):
    if not p:
        return not n
    if p[0] == "*":
        return any(glob(p[1:], n[i:]) for i in range(len(n) + 1))
    return bool(n) and n[0] == p[0] and glob(p[1:], n[1:])


def selects(dets, p):
    return [n for n in dets if (p == "them" or glob(p, n)) and (p.startswith("_") or not n.startswith("_"))]


def expr_patterns(e):
    if e[0] == "sel":
        return [e[2]]
    if e[0] == "id":
        return []
    return [p for x in e[1:] for p in expr_patterns(x)]


def known_spell(c, r):
    if any(not selects(c["dets"], p) for p in expr_patterns(tuple_e(c["e"]))):
        return "C02-empty-selector"
    return None


def parse_patterns(t):
    if not isinstance(t, list):
        return []
    if t[0] == "sel":
        return [t[2]]
    if t[0] == "id":
        return []
    return [p for x in t[1:] for p in parse_patterns(x)]


def known_raw(c, r):
    # the input class is "some selector of the condition selects no detection"; on raw text the selectors are
    # read off the implementation's own parse tree
    if isinstance(r, dict) and isinstance(r.get("parse"), list):
        if any(not selects(c["dets"], p) for p in parse_patterns(r["parse"])):
            return "C02-empty-selector"
    return None


def mutate(c, rng):
    return [dict(c, s=m) for m in rng.sample(edits(c["s"]), min(40, len(edits(c["s"]))))]


def stratum_spell(c, r):
    e = tuple_e(c["e"])
    return e[0]


def stratum_raw(c, r):
    if isinstance(r, dict) and isinstance(r.get("parse"), list):
        return "accepted"
    return "rejected"


# ----------------------------------------------------------------------------- histories
HFAM = {
    "sel": ["sel_a", "sel_b", "sel_c", "sel_1", "sel_2", "sel_x_y", "selection"],
    "flt": ["filter", "filter_main", "flt_1"],
    "us": ["_sel_a", "_filt_ab_sel_1", "_x", "_sel_b", "__"],
    "other": ["notepad", "android", "other", "x", "1st", "them_", "a-b", "any1", "of"],
}
HALL = [n for f in HFAM.values() for n in f]
HPATS = ["sel_*", "sel_*", "them", "them", "*", "_*", "*_a", "s*_*", "sel_a", "*l_*", "_sel*", "f*", "filter*", "*_1",
         "*sel*", "*_*", "sel*", "_filt*", "o*", "*x*"]


def hist_leaf(rng, stable, pats):
    r = rng.random()
    if r < 0.72:
        return ("sel", rng.choice(QUANTS), rng.choice(pats))
    return ("id", rng.choice(stable))


def hist_fill(shape, rng, stable, pats):
    if shape[0] == "leaf":
        return hist_leaf(rng, stable, pats)
    if shape[0] == "not":
        return ("not", hist_fill(shape[1], rng, stable, pats))
    return (shape[0], hist_fill(shape[1], rng, stable, pats), hist_fill(shape[2], rng, stable, pats))


def gen_history_one(rng):
    atom = [0]

    def fresh_atom():
        atom[0] += 1
        return atom[0] - 1

    n0 = rng.randint(2, 4)
    names0 = rng.sample(HFAM["sel"], rng.randint(1, 2)) + rng.sample(HALL, n0)
    names0 = list(dict.fromkeys(names0))[:4]
    src = [[n, fresh_atom()] for n in names0]
    stable = [names0[0]]                      # never removed or renamed: usable as a plain name
    live = [p for p in HPATS if selects(names0, p)]
    pats = rng.sample(live, min(2, len(live))) + rng.sample(HPATS if rng.random() < 0.35 or not live else live, 1)
    conds = []
    for i in range(rng.randint(2, 3)):
        e = hist_fill(random_shape(rng, rng.choice([1, 1, 2, 2, 3])), rng, stable if rng.random() < 0.9 else HALL, pats)
        conds.append(spell(e, rng, None, rng.choice(["normal", "normal", "tight"])))
    if rng.random() < 0.3:
        conds.append(conds[0])                # the very same text twice in the rule
    rules = {}
    steps = []
    nparse = [0]

    def parse(k, which=None):
        for ci in (which if which is not None else range(len(conds))):
            modes = rng.choice([["existing"], ["fresh"], ["existing", "fresh"], ["fresh", "existing"]])
            for m in modes:
                steps.append(["parse", k, ci, m, [list(x) for x in rules[k]]])
                nparse[0] += 1

    def mutate(k):
        cur = rules[k]
        present = {n for n, _ in cur}
        for _ in range(rng.randint(1, 2)):
            r = rng.random()
            removable = [n for n, _ in cur if n not in stable]
            if r < 0.45 and len(cur) < 6:
                fam = rng.choice(["sel", "sel", "us", "flt", "other"])
                cand = [n for n in HFAM[fam] if n not in present]
                if not cand:
                    continue
                n = rng.choice(cand)
                a = fresh_atom()
                cur.append([n, a])
                present.add(n)
                steps.append(["add", k, n, a])
            elif r < 0.75 and removable and len(cur) > 1:
                n = rng.choice(removable)
                cur[:] = [x for x in cur if x[0] != n]
                present.discard(n)
                steps.append(["remove", k, n])
            elif removable:
                old = rng.choice(removable)
                cand = [n for n in HALL if n not in present]
                if not cand:
                    continue
                new = rng.choice(cand)
                a = [x[1] for x in cur if x[0] == old][0]
                cur[:] = [x for x in cur if x[0] != old] + [[new, a]]
                present.discard(old)
                present.add(new)
                steps.append(["rename", k, old, new])

    def new(k):
        rules[k] = [list(x) for x in src]
        steps.append(["new", k])

    def copy(a, b):
        rules[b] = [list(x) for x in rules[a]]
        steps.append(["copy", a, b])

    def dmutate():
        present = {n for n, _ in src}
        cand = [n for n in HFAM["sel"] + HFAM["us"] + HFAM["flt"] if n not in present]
        removable = [n for n, _ in src if n not in stable]
        if cand and (rng.random() < 0.6 or not removable) and len(src) < 6:
            n = rng.choice(cand)
            a = fresh_atom()
            src.append([n, a])
            steps.append(["dadd", n, a])
        elif removable:
            n = rng.choice(removable)
            src[:] = [x for x in src if x[0] != n]
            steps.append(["dremove", n])

    new(0)
    kind = rng.choice(["single", "single", "single", "twodict", "copy", "mixed"])
    if kind == "single":
        parse(0, rng.sample(range(len(conds)), rng.randint(1, len(conds))))
        for _ in range(rng.randint(1, 3)):
            mutate(0)
            parse(0)
    elif kind == "twodict":
        parse(0)
        dmutate()
        if rng.random() < 0.5:
            dmutate()
        new(1)
        parse(1)
        parse(0)
        mutate(1)
        parse(1)
        parse(0)
    elif kind == "copy":
        if rng.random() < 0.7:
            parse(0)
        copy(0, 1)
        mutate(1)
        parse(1)
        parse(0)
        mutate(0)
        parse(0)
        parse(1)
    else:
        parse(0)
        for _ in range(rng.randint(2, 4)):
            r = rng.random()
            ks = sorted(rules)
            if r < 0.5:
                k = rng.choice(ks)
                mutate(k)
                parse(k)
            elif r < 0.7 and len(ks) < 3:
                copy(rng.choice(ks), len(ks))
                parse(len(ks))
            elif r < 0.85 and len(ks) < 3:
                dmutate()
                new(len(ks))
                parse(len(ks))
            else:
                parse(rng.choice(ks))
    return {"dict": [list(x) for x in ([[n, a] for n, a in zip(names0, range(len(names0)))])], "conds": conds, "steps": steps}


def gen_history(tier, rng):
    out = [
        # the coordinator's exposing sequence, and its variants
        {"dict": [["sel_a", 0], ["sel_b", 1]], "conds": ["1 of sel_*", "all of sel_* and not 1 of them"],
         "steps": [["new", 0], ["parse", 0, 0, "existing", [["sel_a", 0], ["sel_b", 1]]], ["add", 0, "sel_c", 2],
                   ["parse", 0, 0, "fresh", [["sel_a", 0], ["sel_b", 1], ["sel_c", 2]]],
                   ["parse", 0, 0, "existing", [["sel_a", 0], ["sel_b", 1], ["sel_c", 2]]],
                   ["parse", 0, 1, "existing", [["sel_a", 0], ["sel_b", 1], ["sel_c", 2]]],
                   ["remove", 0, "sel_a"], ["parse", 0, 0, "existing", [["sel_b", 1], ["sel_c", 2]]],
                   ["parse", 0, 1, "fresh", [["sel_b", 1], ["sel_c", 2]]]]},
        {"dict": [["sel_a", 0], ["x", 1]], "conds": ["1 of them", "x and all of _*"],
         "steps": [["new", 0], ["parse", 0, 0, "existing", [["sel_a", 0], ["x", 1]]], ["parse", 0, 1, "existing", [["sel_a", 0], ["x", 1]]],
                   ["add", 0, "_x", 2], ["rename", 0, "sel_a", "_sel_a"],
                   ["parse", 0, 0, "existing", [["x", 1], ["_x", 2], ["_sel_a", 0]]],
                   ["parse", 0, 1, "existing", [["x", 1], ["_x", 2], ["_sel_a", 0]]]]},
    ]
    for _ in range(450 if tier == "quick" else 6000):
        out.append(gen_history_one(rng))
    return out


def _remap_leaves(t, atoms):
    if t is None:
        return None
    if t[0] == "leaf":
        return ["leaf", atoms.index(t[1]) if t[1] in atoms else -1]
    return [t[0]] + [_remap_leaves(a, atoms) for a in t[1:]]


def hist_parse_steps(c):
    return [st for st in c["steps"] if st[0] == "parse"]


def hist_to_coq(c, r):
    if "exc" in r:
        # the history itself could not be executed (a step raised): never equal to the model
        return "[(([] : list str), ([] : str), (Crash 3 : outcome ptree), (Crash 3 : outcome (option ctree)), (None : option (list bool)))]"
    terms = []
    for st, pr in zip(hist_parse_steps(c), r["parses"]):
        names = st[4]
        dets = [n for n, _ in names]
        atoms = [a for _, a in names]
        pr2 = dict(pr)
        if "exc" not in pr["post"]:
            pr2["post"] = {"t": _remap_leaves(pr["post"]["t"], atoms)}
        if pr.get("keys") != dets:
            pr2["post"] = {"exc": "HarnessStateMismatch", "sigma": False}
        cp, cq, ct = impl_terms({"dets": dets}, pr2)
        terms.append(f"({clist(cstr(n) for n in dets)}, {cstr(c['conds'][st[2]])}, {cp}, {cq}, {ct})")
    return clist(terms)


def known_hist(c, r):
    if "exc" in r:
        return None
    for st, pr in zip(hist_parse_steps(c), r["parses"]):
        dets = [n for n, _ in st[4]]
        if isinstance(pr.get("parse"), list) and any(not selects(dets, p) for p in parse_patterns(pr["parse"])):
            return "C02-empty-selector"
    return None


def mutate_hist(c, rng):
    """neighbours: the same history with one non-parse step (other than object creation) left out is not
    well-defined in general; instead shorten it from the end"""
    out = []
    steps = c["steps"]
    for k in range(len(steps) - 1, 1, -1):
        if steps[k - 1][0] == "parse":
            out.append(dict(c, steps=steps[:k]))
    return out[:20]


def stratum_hist(c, r):
    kinds = {st[0] for st in c["steps"]}
    if "copy" in kinds and "dadd" not in kinds and "dremove" not in kinds:
        return "deepcopy"
    if len([st for st in c["steps"] if st[0] == "new"]) > 1:
        return "two rules from one dict"
    if "copy" in kinds:
        return "mixed"
    return "one rule"


def depth_check(tier, seed):
    """Deep nesting: the implementation either returns the right tree or (known finding) gives up with a
    SigmaConditionError; a non-Sigma exception or a different tree is a violation."""
    from vlib import core
    cases = []
    for n in (1, 5, 10, 14, 20, 40, 120):
        cases.append({"dets": ["a"], "s": "(" * n + "a" + ")" * n, "kind": "paren", "n": n})
        cases.append({"dets": ["a"], "s": "not (" * n + "a" + ")" * n, "kind": "notparen", "n": n})
    for n in (10, 40, 60, 150):
        cases.append({"dets": ["a"], "s": "not " * n + "a", "kind": "not", "n": n})
    res = core.run_impl("C02", "run_cond", cases)
    problems, hits, rejected = [], {}, 0
    for c, r in zip(cases, res):
        want = ["id", "a"]
        if c["kind"] != "paren":
            for _ in range(c["n"]):
                want = ["not", want]
        got = r.get("parse") if isinstance(r, dict) else None
        if got == want:
            continue
        if isinstance(got, dict) and got.get("sigma") and got.get("exc") == "SigmaConditionError" and c["n"] >= 14:
            hits.setdefault("C02-deep-nesting-rejected", c)
            rejected += 1
            continue
        problems.append(core.Problem("violation", "depth", c, {"impl": r, "expected_parse": want if c["n"] < 30 else "nested"}))
    return {"name": "depth", "problems": problems, "evaluations": len(cases), "nontrivial_keys": ["depth:%s:%d" % (c["kind"], c["n"]) for c in cases],
            "stats": {"cases": len(cases), "rejected_as_too_deep": rejected}, "samples": [{"suite": "depth", "case": cases[6], "impl": res[6]}],
            "known_hits": hits}


REQ = ["Base.Chars", "Base.Outcome", "Model.CondParse", "Model.Cond", "Spec.Glob", "Spec.CondGrammar", "Run.C02run"]
PROPERTY = Property(
    pid="C02", props_file="Props/C02.v",
    suites=[
        Suite("spell", gen_spell, "run_cond", REQ, "judge_spell", spell_to_coq, known=known_spell, mutate=mutate,
              stratum=stratum_spell, shard=250),
        Suite("raw", gen_raw, "run_cond", REQ, "judge_raw", raw_to_coq, known=known_raw, mutate=mutate,
              stratum=stratum_raw, shard=400),
        Suite("history", gen_history, "run_history", REQ, "judge_hist", hist_to_coq, known=known_hist, mutate=mutate_hist,
              stratum=stratum_hist, shard=60),
    ],
    extra_checks=[depth_check],
    rule="spell: every expression shape (and/or binary, any node negated) with <= 3 (quick) / 4 (thorough) leaves x 3 parenthesis "
         "styles x random blank style, random shapes up to 12 leaves, leaves = names from a hostile pool (notepad, android, oracle, "
         "all_x, any1, of, them_, 1st, a-b, _x, 1, any, all, them, NOT ...), undefined names, selectors 1/any/all with patterns having "
         "leading / trailing / inner '*', 'them', '_*', empty matches; 1-5 detections, all 2^n assignments. raw: all strings of length "
         "<= 3 (quick) / 4 (thorough) over {a n o t d r 1 f * _ - ( ) blank}, all sequences of <= 3 / 4 words over 16 hostile words, random token "
         "soups with illegal characters, valid spellings damaged by one edit. history: rule objects (SigmaRule.from_dict, 2-3 conditions with selectors, "
         "the same pattern / the same text in several conditions) are parsed (existing SigmaCondition and fresh SigmaCondition on the same detections), "
         "their detection set is changed (add / remove / rename of matching, non-matching and underscore-prefixed names), and parsed again; also two rules "
         "built from one (changed) dict and copy.deepcopy of a rule changed independently; every parse is compared with the model and the specification "
         "for the names present at that moment. non-trivial = more than a bare name (spell) / not a lexical error (raw)",
    assumptions=[
        "pyparsing's scannerless matching of the repaired grammar coincides with max-munch words over [A-Za-z0-9_*-] plus the token-level PEG "
        "of Model/CondParse.v (incl. the 'of*x' quirk): validated by the correspondence only",
        "re.fullmatch(pattern.replace('*','.*'), name, DOTALL) is modelled by a backtracking matcher for literals and '.*' (Model/Cond.v rmatch)",
        "each detection is a single field=value atom; the detection's own condition tree belongs to other properties",
        "state kept between parses (lru_cache of parse trees, anything remembered on the rule / detections object) is observed through repeated "
        "parses in one process: suite history (change of the detection set between parses, copies, rules from one dict) and the repeated .parsed access",
        "nesting depth of generated conditions is bounded by 9 (the CPython recursion limit is not modelled; suite 'depth' and finding "
        "C02-deep-nesting-rejected cover what happens beyond it)",
    ],
)
