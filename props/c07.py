"""C07 - malformed documents raise Sigma errors only; collecting mode never raises.

Suites
  load  rules / correlation rules / filters through <Class>.from_dict in strict and collecting mode;
        judged in Coq: bit 1 faithful model (Model/Loader.v) = implementation, bit 2 the property itself
        (Spec/LoaderSpec.v c07_okb) on the implementation's outcome.
  coll  collections (from_dicts as load_ruleset calls it, and with default arguments) and text-level
        from_yaml: not modelled in Coq, the property is evaluated on the implementation's outcome only.
"""
import copy
import datetime
import math
import random

from vlib.core import Property, Suite, clist, cbool, copt, cZ

# ------------------------------------------------------------------------------------------------
# tagged JSON <-> Python values <-> Coq terms
D = datetime.date


def to_tag(v):
    if v is None: return ["n"]
    if isinstance(v, bool): return ["b", v]
    if isinstance(v, int): return ["i", str(v)]
    if isinstance(v, float):
        return ["f", "nan" if math.isnan(v) else ("inf" if v > 0 else "-inf") if math.isinf(v) else repr(v)]
    if isinstance(v, str): return ["s", v]
    if isinstance(v, datetime.date): return ["d", v.isoformat()]
    if isinstance(v, (list, tuple)): return ["l", [to_tag(x) for x in v]]
    if isinstance(v, dict): return ["m", [[to_tag(k), to_tag(x)] for k, x in v.items()]]
    raise TypeError(type(v))


SAFE = set("abcdefghijklmnopqrstuvwxyzABCDEFGHIJKLMNOPQRSTUVWXYZ0123456789 _-.,:;/|*?%$()[]{}<>=+!#&'@^~`")


def cstr(s):
    """compact Coq term of type str (decoded by Run.C07run.a / h)"""
    if all(c in SAFE for c in s): return f'(a "{s}")'
    return '(h "' + "".join(f"{ord(c):06x}" for c in s) + '")'


def tag_coq(t):
    k = t[0]
    if k == "n": return "YNull"
    if k == "b": return f"(YBool {cbool(t[1])})"
    if k == "i": return f"(YInt {cZ(int(t[1]))})"
    if k == "f":
        f = float(t[1])
        return f"(YFloat {1 if math.isnan(f) else 2 if math.isinf(f) else 3 if f == 0 else 0})"
    if k == "s": return f"(YStr {cstr(t[1])})"
    if k == "d": return "YDate"
    if k == "l": return "(YList " + clist(tag_coq(x) for x in t[1]) + ")"
    if k == "m": return "(YMap " + clist(f"({tag_coq(a)}, {tag_coq(b)})" for a, b in t[1]) + ")"
    raise ValueError(k)


SIGMA_TAGS = {
    "SigmaIdentifierError": 10, "SigmaTypeError": 11, "SigmaNameError": 12, "SigmaTaxonomyError": 13,
    "SigmaRelatedError": 14, "SigmaLevelError": 15, "SigmaStatusError": 16, "SigmaTagError": 17,
    "SigmaValueError": 18, "SigmaDateError": 19, "SigmaModifiedError": 20, "SigmaFieldsError": 21,
    "SigmaFalsePositivesError": 22, "SigmaAuthorError": 23, "SigmaDescriptionError": 24,
    "SigmaReferencesError": 25, "SigmaTitleError": 26, "SigmaScopeError": 27, "SigmaLicenseError": 28,
    "SigmaLogsourceError": 29, "SigmaDetectionError": 30, "SigmaConditionError": 31, "SigmaModifierError": 32,
    "SigmaRegularExpressionError": 33, "SigmaCorrelationRuleError": 34, "SigmaCorrelationConditionError": 35,
    "SigmaCorrelationTypeError": 36, "SigmaTimespanError": 37, "SigmaRuleNotFoundError": 38, "SigmaFilterError": 39,
    "SigmaFilterConditionError": 40, "SigmaFilterRuleReferenceError": 41, "SigmaCollectionError": 42,
}
CRASH_TAGS = {"AttributeError": 1, "TypeError": 2, "KeyError": 3, "ValueError": 4, "IndexError": 5,
              "UnboundLocalError": 6, "OverflowError": 7}


def out_coq(o):
    if o[0] == "ok": return "(Ok " + clist(str(SIGMA_TAGS.get(c, 99)) for c in o[1]) + ")"
    if o[0] == "sigma": return f"(SigmaErr {SIGMA_TAGS.get(o[1], 99)})"
    return f"(Crash {CRASH_TAGS.get(o[1], 99)})"     # "crash" and "yaml"


# ------------------------------------------------------------------------------------------------
# valid base documents
U1, U2, U3 = "9a6fd1f4-8e1c-4b7a-9f0e-111111111111", "0f0e0d0c-0b0a-4908-8706-050403020100", "{12345678-1234-5678-1234-567812345678}"
LS = {"category": "process_creation", "product": "windows"}


def rule(**kw):
    d = {"title": "Test rule", "logsource": dict(LS), "detection": {"sel": {"Image": "a.exe"}, "condition": "sel"}}
    d.update(kw)
    return d


RULES = [
    rule(),
    rule(id=U1, name="r1", status="test", level="high", description="d", author="a", date="2024-02-29", modified=D(2024, 3, 1),
         tags=["attack.t1059", "cve.2024-1"], references=["https://x"], falsepositives=["none"], fields=["a"], license="MIT",
         scope=["server"], taxonomy="sigma", related=[{"id": U2, "type": "derived"}], custom="attr"),
    rule(id=U3, date="2023/1/5", modified="2023/12/31", level="informational", status="experimental"),
    rule(detection={"sel": {"CommandLine|contains|all": ["a", "b"], "Image|endswith": "\\cmd.exe"}, "flt": {"User|startswith": "NT "},
                    "condition": "sel and not flt"}),
    rule(detection={"sel": {"f|re": "a.*b", "g|re|i|m|s": "^x$"}, "condition": "sel"}),
    rule(detection={"sel": {"f|re|contains": "(?i)abc", "g|re|startswith": "x", "h|re|endswith": "y$"}, "condition": "sel"}),
    rule(detection={"sel": {"ip|cidr": ["10.0.0.0/8", "fe80::/10"], "port|gte": 1024, "n|lt": 5.5}, "condition": "sel"}),
    rule(detection={"sel": {"f|base64offset|contains": "cmd", "g|base64": "x", "h|wide|base64offset|contains": "ps"}, "condition": "sel"}),
    rule(detection={"sel": {"f|windash|contains": " -enc", "g|utf16|base64": "a", "h|utf16be": "b"}, "condition": "sel"}),
    rule(detection={"sel": {"f|exists": True, "g|fieldref": "h", "h|fieldref|endswith": "g", "i|cased": "AbC", "j|expand": "%x%"}, "condition": "sel"}),
    rule(detection={"sel": {"t|minute|gt": 30, "t|hour": 3, "u|year|lte": 2024, "f|neq": "x", "g|contains|neq": ["a", "b"]}, "condition": "sel"}),
    rule(detection={"keywords": ["a", "b*", 3, None, True], "condition": "keywords"}),
    rule(detection={"kw": "plain", "num": 5, "nul": None, "condition": "kw or num or nul"}),
    rule(detection={"sel": [{"a": 1}, {"b": [2, 3]}, {"c|contains": "x"}], "condition": "sel"}),
    rule(detection={"sel": [{"a": 1}, ["k1", "k2"], "k3"], "s2": {None: "kw", "|contains": "y", "f": None, "g": []}, "condition": ["sel", "s2"]}),
    rule(detection={"sel": {"f": ["a", 1, 1.5, True, None, "w*ld?", "\\*"]}, "condition": "1 of sel*"}),
    rule(logsource={"service": "sysmon", "definition": "needs x", "custom": 1}),
    rule(logsource={"product": "linux"}, level="critical", status="stable"),
    rule(logsource={"category": "x", "product": None, "service": ""}),
    rule(title="T" * 256, status="deprecated", level="low"),
    rule(related=[{"id": U1, "type": "obsolete"}, {"id": U2, "type": "Similar"}], status="unsupported", level="medium"),
    rule(tags=[], references=None, falsepositives=[], fields=None, taxonomy=None, name=None, id=None),
    rule(detection={"sel": {"f|re|expand": "a%x%", "g|expand|re": "b", "h|all|re": "c", "i|re|re": "d"}, "condition": "sel"}),
    rule(detection={"sel": {"f|contains|base64": "a", "g|cidr|contains": "10.0.0.0/8", "h|base64|cidr": "x", "i|exists|all": True,
                            "|exists": True, "j|gt|lt": 1, "k|fieldref|base64": "y", "l|cased|contains|all": ["A", "B"]}, "condition": "sel"}),
    rule(detection={"sel": {"f|wide": "ab", "g|utf16|wide": "c", "h|wide|wide": "d", "i|base64|utf16be|base64offset": "e"}, "condition": "sel"}),
]


# rules with exactly one questionable detection item each (a first error must not hide the others)
ITEMS = [("|exists", True), ("f|exists|all", True), ("f|all|exists", True), ("f|exists", "yes"), ("f|contains|base64", "a"), ("g|cidr|contains", "10.0.0.0/8"),
         ("h|base64|cidr", "x"), ("j|gt|lt", 1), ("k|fieldref|base64", "y"), ("f|re|re", "d"), ("h|all|re", "c"), ("g|expand|re", "b"),
         ("g|utf16|wide", "c"), ("f|fieldref", "a*"), ("f|fieldref", "a\\*"), ("f|base64", "a?"), ("f|base64offset", "\\*"), ("f|cidr", "x"), ("f|cidr", "10.0.0.1/8"),
         ("f|re", "("), ("f|re|contains", "(?i)x"), ("f|re|startswith", "^a"), ("f|re|endswith", ""), ("f|re|i|contains", "a$"), ("f|gt", "5"),
         ("f|minute", 1.5), ("f|lt", True), ("f|contains", 5), ("f|startswith", None), ("f|windash", 1), ("f|cased", ["a", 2]), ("f|wide", "é"),
         ("f|utf16be|base64", "é"), ("f|expand", 5), ("f|i", "x"), ("f|neq|all", None), ("f|unknown", "x"), ("f|contains|", "x"), ("f", {"a": 1}),
         ("f", [1, [2]]), ("f", D(2020, 1, 1)), ("f", float("nan")), ("f", 10 ** 400), ("f|re", 5), ("f|re|i", None), ("f|all|re", True),
         ("f|re", ["a", "("]), ("f|contains", ["a", 5, "b"]), (None, "kw"), (None, ["k", 1, None]), ("", "x"), ("|", "x")]
SINGLES = [rule(detection={"sel": {k: v}, "condition": "sel"}) for k, v in ITEMS] + \
          [rule(detection={"ok": {"a": 1}, "sel": [{"a": 1}, {k: v}], "condition": "ok"}) for k, v in ITEMS[:12]]


def corr(ctype, **kw):
    c = {"type": ctype, "rules": ["r1", "r2"], "group-by": ["User"], "timespan": "5m", "condition": {"gte": 10}}
    c.update(kw)
    c = {k: v for k, v in c.items() if v is not ...}
    return {"title": "Corr " + ctype, "name": "c_" + ctype, "correlation": c}


CORRS = [
    corr("event_count"),
    corr("event_count", rules="r1", generate=True, timespan="1h", condition={"lt": 3}),
    corr("value_count", condition={"gte": 5, "field": "User"}, aliases={"u": {"r1": "User", "r2": "user.name"}}),
    corr("value_sum", condition={"gt": "100", "field": "bytes"}, timespan="10s"),
    corr("value_avg", condition={"lte": 1.5, "field": ["a", "b"]}, timespan="2d"),
    corr("value_percentile", condition={"gte": 90, "field": "d", "percentile": 95}, timespan="1w"),
    corr("value_median", condition={"eq": 7, "field": "d"}, timespan="3M"),
    corr("temporal", condition=...),
    corr("temporal_ordered", condition=..., timespan="1y", **{"group-by": "User"}),
    corr("temporal", condition={"gte": 2}),
    corr("temporal", condition="r1 and r2"),
    corr("temporal_ordered", condition="r1 or (not r2)"),
    corr("temporal", rules=..., condition="a and not (b or c)"),
    corr("temporal", rules=["a"], condition="not not a"),
    corr("event_count", condition={"neq": 0}, generate=False, **{"group-by": ...}),
    corr("Event_Count", aliases={}),
    dict(corr("value_count", condition={"lt": True, "field": "x"}), id=U1, level="high", status="test", tags=["a.b"], date="2024-01-01"),
    corr("temporal", rules=["r1"], condition="r1", aliases={"a": {}}),
    corr("temporal", rules=[], condition="x or y"),
    corr("value_sum", condition={"gte": " 1_0 ", "field": "f", "percentile": "5"}),
]

FILTERS = [
    {"title": "F", "logsource": dict(LS), "filter": {"rules": ["r1"], "selection": {"User": "adm"}, "condition": "selection"}},
    {"title": "F any", "id": U2, "logsource": {"product": "windows"}, "filter": {"rules": "any", "sel": {"a|contains": "x"}, "condition": "not sel"}},
    {"title": "F ANY", "logsource": {"category": "x"}, "filter": {"rules": "ANY", "a": {"f": 1}, "b": ["k"], "condition": "a or b"}},
    {"title": "F empty list", "logsource": {"service": "s"}, "filter": {"rules": [], "sel": {"f|re": "x+"}, "condition": "sel"}},
    {"title": "F single", "description": "d", "logsource": dict(LS), "filter": {"rules": U1, "sel": {"f|cidr": "10.0.0.0/8"}, "condition": "sel"}},
    {"title": "F many", "name": "f1", "status": "test", "logsource": dict(LS),
     "filter": {"rules": ["r1", U1], "s1": {"a": "b"}, "s2": [{"c": 1}, {"d": 2}], "condition": "1 of s*"}},
    {"title": "F kw", "logsource": dict(LS), "filter": {"rules": ["r"], "kw": "word", "condition": "kw"}},
    {"title": "F mods", "logsource": dict(LS), "filter": {"rules": ["r"], "sel": {"a|base64offset|contains": "x", "b|exists": False}, "condition": "sel"}},
]

COLLS = [
    [rule(name="r1"), rule(name="r2", id=U1)],
    [{"action": "global", "title": "G", "logsource": dict(LS), "level": "low"}, {"detection": {"sel": {"a": 1}, "condition": "sel"}},
     {"detection": {"sel": {"b": 2}, "condition": "sel"}}],
    [{"action": "global", "logsource": dict(LS)}, rule(), {"action": "reset"}, rule(title="after reset")],
    [rule(), {"action": "repeat", "detection": {"sel": {"Image": "b.exe"}}}, {"action": "repeat", "title": "third"}],
    [rule(name="r1"), rule(name="r2"), CORRS[0]],
    [rule(name="r1"), rule(name="r2"), CORRS[10], FILTERS[0]],
    [FILTERS[1], rule(name="r1"), {"action": "global", "detection": {"flt": {"x": "y"}}}, rule(title="merged", detection={"sel": {"a": 1}, "condition": "sel and not flt"})],
]
assert len(RULES) + len(CORRS) + len(FILTERS) + len(COLLS) == 60

# ------------------------------------------------------------------------------------------------
# mutation
REPL = [None, True, 0, 1.5, "", "x", [], ["x"], {}, {"x": 1}, D(2020, 1, 1)]
HOSTILE = [float("nan"), float("inf"), 10 ** 400, -1, "x" * 257, [[]], [None], {"a": {"b": {"c": []}}}, False, 0.0, "é", "hıgh",
           "teſt", [1, "x", None], {5: "x"}, {None: 1}, "a|b", "*", "\\", D(1, 1, 1)]
RANGE = {
    "level": ["foo", "HIGH", "hıgh", "High ", "critical"], "status": ["teſt", "ﬆable", "done", "TEST"],
    "date": ["2020-13-01", "2020-02-30", "2024-02-29", "2023-02-29", "2023/2/29", "1999/1/1", "0999-01-01", "4000-01-01", "2020-1-01",
             "2020/01/32", "2020/00/10", "2020-01-01 ", "2020/1/1/1", "3999/12/31", "1000-01-01", "2100-02-29", "2000-02-29", "２０２０-01-01"],
    "id": ["x", "9a6fd1f48e1c4b7a9f0e111111111111", "urn:uuid:" + U1, "9a6fd1f4-8e1c-4b7a-9f0e-11111111111", U1 + "0",
           "0x" + "a" * 30, "+" + "a" * 31, " " + "a" * 31, "a_" + "a" * 30, "g" * 32, "{" + U1, ""],
    "timespan": ["5x", "m", "", "10", "1_0m", " 5m", "-5m", "5 m", "0s", "1.5h", "5M", "5Y", "0x5m", "+3d", "5mm", "１m"],
    "type": ["foo", "TEMPORAL", "temporal ordered", "value_count", "event_count", "temporal", "value_percentile", ""],
    "condition": [{"foo": 1}, {"gte": 1, "lte": 2}, {"gte": "x"}, {"gte": None}, {"gte": float("inf")}, {"gte": float("nan")}, {"gte": 1, 5: 2},
                  {"gte": 1, "field": None}, {"gte": 1, "percentile": None}, {"gte": 1, "percentile": "x"}, {"GTE": 1}, {"gte": [1]},
                  {"gte": 10 ** 400}, {"gte": "1_000"}, "r1 and", "r1 and r3", "(r1", "r1 r2", "and", "not", "r1 and$ r2", "R1 AND R2",
                  "r1 and r2 and r1", "r2 or r1", [], ["sel"], "sel", "x and y"],
    "rules": ["any", "ANY", "Any", "r1", [5, "r1"], [[], "r1"], ["r1", "r2", "r3"], [None], {"a": 1}, [True, "r2"], [1.5], ["r1", "r1"]],
    "aliases": [{"a": 5}, {"a": {"r1": "f"}, "b": []}, {5: {}}, {"a": {5: 5}}],
    "related": [[{"id": U1}], [{"type": "derived"}], [{"id": 5, "type": "derived"}], [{"id": "x", "type": "derived"}],
                [{"id": U1, "type": "foo"}], [{"id": U1, "type": 5}], [5], [{"id": U1, "type": "merged"}, 5], [{"id": U1, "type": "renamed", "x": 1}]],
    "tags": [["x"], ["a.b", 5], [".x"], ["a."], ["a.b.c"], [None, "q"], [["a.b"]]],
    "title": ["x" * 256, "x" * 257, ""], "name": ["", "n"], "taxonomy": ["", "x"],
    "action": ["foo", 5, [], "global", "reset", "repeat", None],
}
MODKEYS = ["f|foo", "f|re|foo", "|contains", "|exists", "|re", "|all", "|base64offset|contains", "f|", "f||contains", "f|contains|re", "f|re|contains", "f|re|expand", "f|re|i", "f|i", "f|cidr", "f|gt",
           "f|exists", "f|base64", "f|wide", "f|utf16|wide", "f|fieldref", "f|all", "f|neq", "f|minute|gte", "f|windash|re", "F", "f|CONTAINS",
           "f|cased|cidr", "f|base64offset|base64", "f|expand|contains", "f|re|startswith|endswith"]
MODVALS = ["", "x", "a*b", "(", "(?i)x", "10.0.0.0/8", "é", 5, True, None, 1.5, [], ["x", 5], ["(", "x"], {}, [[]], "^a$", ".*", "a\\"]


def paths(v, pre=()):
    """all (path, value) pairs below v; a path is a tuple of dict keys / list indices"""
    out = []
    if isinstance(v, dict):
        for k, x in v.items():
            out.append((pre + (k,), x))
            out += paths(x, pre + (k,))
    elif isinstance(v, list):
        for i, x in enumerate(v):
            out.append((pre + (i,), x))
            out += paths(x, pre + (i,))
    return out


def at(doc, path):
    for p in path: doc = doc[p]
    return doc


def with_value(doc, path, val):
    if not path: return copy.deepcopy(val)
    d = copy.deepcopy(doc)
    at(d, path[:-1])[path[-1]] = copy.deepcopy(val)
    return d


def without(doc, path):
    d = copy.deepcopy(doc)
    del at(d, path[:-1])[path[-1]]
    return d


def rekey(doc, path, newkey):
    """replace the key of a map entry, keeping its position"""
    d = copy.deepcopy(doc)
    parent = at(d, path[:-1])
    if not isinstance(parent, dict): return None
    items = [(newkey if k == path[-1] else k, v) for k, v in parent.items()]
    if len({repr(k) for k, _ in items}) != len(items): return None
    parent.clear()
    parent.update(items)
    return d


def dupkey(doc, path):
    """the 'same' key once more in another spelling (a YAML document may carry both)"""
    d = copy.deepcopy(doc)
    parent = at(d, path[:-1])
    k = path[-1]
    if not isinstance(parent, dict) or not isinstance(k, str) or not k: return None
    k2 = k.upper() if k.upper() != k else k.lower() + " "
    if k2 in parent: return None
    parent[k2] = copy.deepcopy(parent[k])
    return d


def random_yaml(rng, depth):
    r = rng.random()
    if depth <= 0 or r < 0.45:
        return rng.choice(REPL[:6] + [D(2020, 1, 1), -3, "a.b", "sel", U1, "5m", 2.0, float("nan"), "1 of them"])
    if r < 0.7:
        return [random_yaml(rng, depth - 1) for _ in range(rng.randint(0, 3))]
    keys = ["title", "id", "logsource", "detection", "condition", "correlation", "filter", "rules", "type", "timespan", "sel", "category",
            "f|contains", "f|re", "action", "name", "tags", "date", "level", "status", "related", "gte", "field", "aliases", "group-by",
            5, None, True, "x", "generate", "product", "modified"]
    return {rng.choice(keys): random_yaml(rng, depth - 1) for _ in range(rng.randint(0, 4))}


def mutants(doc, rng, full, split=False):
    """every path x every wrong type, deletions, key mutations, out-of-range values"""
    out = []
    prio = []      # kept in every tier
    ps = paths(doc)
    for path, val in ps:
        for r in REPL:
            if not (type(r) is type(val) and r == val):
                out.append(with_value(doc, path, r))
        out.append(without(doc, path) if not isinstance(path[-1], int) else with_value(doc, path[:-1], [x for i, x in enumerate(at(doc, path[:-1])) if i != path[-1]]))
        if not isinstance(path[-1], int):
            for nk in (5, None, True, 1.5, "", path[-1] + " " if isinstance(path[-1], str) else "k"):
                m = rekey(doc, path, nk)
                if m is not None: out.append(m)
            m = dupkey(doc, path)
            if m is not None: out.append(m)
        key = path[-1]
        for fam, vals in RANGE.items():
            if key == fam or (fam == "date" and key == "modified"):
                if fam in ("condition", "type") and path[0] != "correlation":
                    out += [with_value(doc, path, v) for v in vals]       # not validated while loading
                else:
                    prio += [with_value(doc, path, v) for v in vals]
        hs = HOSTILE if full else rng.sample(HOSTILE, 3)
        out += [with_value(doc, path, h) for h in hs]
        # detection items: other modifier chains x values
        if isinstance(key, str) and len(path) >= 3 and path[0] in ("detection", "filter") and isinstance(at(doc, path[:-1]), dict) and key not in ("condition", "rules"):
            ks = MODKEYS if full else rng.sample(MODKEYS, 4)
            for mk in ks:
                m = rekey(doc, path, mk)
                if m is None: continue
                out.append(m)
                vs = MODVALS if full else rng.sample(MODVALS, 3)
                out += [with_value(m, path[:-1] + (mk,), v) for v in vs]
    # new keys at the top level and in the main sections
    for sect in ([()] if isinstance(doc, dict) else []) + [(k,) for k in ("logsource", "detection", "correlation", "filter") if isinstance(doc, dict) and isinstance(doc.get(k), dict)]:
        for fam, vals in RANGE.items():
            if fam in at(doc, sect): continue
            vs = vals if full else rng.sample(vals, min(2, len(vals)))
            for v in vs:
                d = copy.deepcopy(doc)
                at(d, sect)[fam] = copy.deepcopy(v)
                out.append(d)
    # two mutations at once (the first error must still be the strict one)
    if len(ps) >= 2:
        for _ in range(12 if full else 3):
            (p1, _), (p2, _) = rng.sample(ps, 2)
            try:
                out.append(with_value(with_value(doc, p1, rng.choice(REPL)), p2, rng.choice(REPL)))
            except (KeyError, IndexError, TypeError):
                pass
    # the whole document of another type, random nested data
    out += [copy.deepcopy(r) for r in REPL]
    for _ in range(10 if full else 2):
        out.append(random_yaml(rng, 4))
        if ps:
            out.append(with_value(doc, rng.choice(ps)[0], random_yaml(rng, 3)))
    if split: return prio, out
    return prio + out


COMMON_KEYS = ["id", "name", "taxonomy", "related", "level", "status", "tags", "date", "modified", "fields", "falsepositives",
               "author", "description", "references", "title", "scope", "license"]
SECTION_KEYS = {"logsource": ["category", "product", "service", "definition"],
                "correlation": ["type", "rules", "generate", "group-by", "timespan", "aliases", "condition"],
                "filter": ["rules", "condition"], "detection": ["condition"]}


def all_wrong(doc, rng, n):
    """several / all fields wrong at once: the whole error list and its order are observable"""
    out = []
    wrong = [5, [], {}, "", True, 1.5, ["x"], {"x": 1}, "x", None]
    for w in wrong[:3]:
        d = copy.deepcopy(doc)
        for k in COMMON_KEYS: d[k] = copy.deepcopy(w)
        out.append(d)
        for sec, keys in SECTION_KEYS.items():
            if isinstance(d.get(sec), dict):
                d2 = copy.deepcopy(d)
                for k in keys: d2[sec][k] = copy.deepcopy(w)
                out.append(d2)
                d3 = copy.deepcopy(doc)
                for k in keys: d3[sec][k] = copy.deepcopy(w)
                out.append(d3)
    for _ in range(n):
        d = copy.deepcopy(doc)
        for k in rng.sample(COMMON_KEYS, rng.randint(2, 6)): d[k] = copy.deepcopy(rng.choice(wrong))
        for sec, keys in SECTION_KEYS.items():
            if isinstance(d.get(sec), dict) and rng.random() < 0.6:
                for k in rng.sample(keys, rng.randint(1, len(keys))): d[sec][k] = copy.deepcopy(rng.choice(wrong))
            elif rng.random() < 0.15:
                d[sec] = copy.deepcopy(rng.choice(wrong))
        out.append(d)
    return out


KINDS = {"rule": 0, "corr": 1, "filter": 2}


def gen_load(tier, rng):
    full = tier != "quick"
    cases = []
    for kind, docs in (("rule", RULES), ("corr", CORRS), ("filter", FILTERS)):
        for d in docs:
            cases.append({"kind": kind, "doc": to_tag(d)})
            prio, ms = mutants(d, rng, full, split=True)
            keep = 40 if not full else 600
            ms = prio + (rng.sample(ms, keep) if len(ms) > keep else ms)
            cases += [{"kind": kind, "doc": to_tag(m)} for m in ms]
            cases += [{"kind": kind, "doc": to_tag(m)} for m in all_wrong(d, rng, 40 if full else 4)]
            # a document of one kind handed to the loader of another kind
            other = rng.choice([k for k in KINDS if k != kind])
            cases.append({"kind": other, "doc": to_tag(d)})
    cases += [{"kind": "rule", "doc": to_tag(d)} for d in SINGLES]
    cases += [{"kind": "filter", "doc": to_tag({"title": "F", "logsource": dict(LS), "filter": dict(d["detection"], rules=["r"])})} for d in SINGLES[:len(ITEMS)]]
    return cases


def gen_coll(tier, rng):
    full = tier != "quick"
    cases = []
    for docs in COLLS:
        for kind in ("coll", "colldef"):
            cases.append({"kind": kind, "doc": to_tag(docs), "lib": False})
        ms = mutants(docs, rng, full)
        if not full:
            ms = rng.sample(ms, 45) if len(ms) > 45 else ms
        elif len(ms) > 1200:
            ms = rng.sample(ms, 1200)
        for m in ms:
            cases.append({"kind": "coll", "doc": to_tag(m if isinstance(m, list) else [m]), "lib": False})
    for docs in COLLS:
        for i, d in enumerate(docs):
            if "action" in d and d["action"] != "repeat": continue
            for m in all_wrong(d, rng, 6 if full else 1):
                cases.append({"kind": "coll", "doc": to_tag(docs[:i] + [m] + docs[i + 1:]), "lib": False})
    # single documents wrapped in a collection, non-map members
    singles = RULES + CORRS + FILTERS
    for d in singles:
        cases.append({"kind": "coll", "doc": to_tag([d]), "lib": False})
        ms = mutants(d, rng, False)
        for m in rng.sample(ms, min(len(ms), 40 if full else 4)):
            cases.append({"kind": "coll", "doc": to_tag([m, rng.choice(singles)]), "lib": False})
    for r in REPL + [[None], [5, rule()], [[], {}], [rule(), "x"]]:
        cases.append({"kind": "coll", "doc": to_tag(r if isinstance(r, list) else [r]), "lib": False})
    return cases


# ---- collections: valid rules + every mutant of a filter / correlation rule / rule, every entry point ----
def same_ls_rule(name, ls):
    return {"title": "Valid " + name, "name": name, "logsource": copy.deepcopy(ls) if isinstance(ls, dict) and ls else dict(LS),
            "detection": {"sel": {"Image": "a.exe"}, "condition": "sel"}}


OTHER_LS = {"category": "other_category", "product": "other_product", "service": "other_service"}
VIAS = [("dicts", False, True), ("dicts", True, True), ("dicts", False, False), ("dicts", True, False),
        ("yaml", False, True), ("yaml", True, False), ("merge", False, True), ("merge", False, False), ("ruleset", False, True),
        ("ruleset", False, False)]        # (entry point, collect_filters, resolve_references)


def yaml_safe(v):
    """can be written by yaml.safe_dump and read back as the same value"""
    if isinstance(v, float): return not (math.isnan(v))
    if isinstance(v, int) and not isinstance(v, bool): return abs(v) < 10 ** 300
    if isinstance(v, list): return all(yaml_safe(x) for x in v)
    if isinstance(v, dict): return all(yaml_safe(k) and yaml_safe(x) and not isinstance(k, float) for k, x in v.items())
    if isinstance(v, str): return all(c.isprintable() or c in "\n\t" for c in v) and not v.startswith(("\ufeff",))
    return True


def gen_collx(tier, rng):
    full = tier != "quick"
    cases = []

    def add(docs, split, vias):
        for via, cf, rr in vias:
            if via in ("yaml", "ruleset") and not yaml_safe(docs): continue
            cases.append({"kind": "collx", "doc": to_tag(docs), "via": via, "cf": cf, "rr": rr, "split": split, "lib": False})

    bases = [("filter", d) for d in FILTERS] + [("corr", d) for d in CORRS] + [("rule", d) for d in RULES[:8]]
    for kind, d in bases:
        ls = d.get("logsource") if kind != "corr" else LS
        valid = [same_ls_rule("r1", ls), dict(same_ls_rule("r2", OTHER_LS), id=U1), same_ls_rule("a", ls), same_ls_rule("b", OTHER_LS),
                 same_ls_rule("c", ls)]
        add(valid[:2] + [d], 2, VIAS)                      # the well-formed collection itself
        add([d] + valid[:2], 1, VIAS)
        prio, ms = mutants(d, rng, False, split=True)
        ms = [m for m in prio + ms if isinstance(m, dict)] + all_wrong(d, rng, 2)
        # the main sections mutated in every way stay in; the rest is sampled
        key = {"filter": "filter", "corr": "correlation", "rule": "detection"}[kind]
        main = [m for m in ms if m.get(key) != d.get(key) or m.get("logsource") != d.get("logsource")]
        rest = [m for m in ms if not (m.get(key) != d.get(key) or m.get("logsource") != d.get("logsource"))]
        n_main, n_rest, n_via = (150, 40, 3) if full else (14 if kind == "filter" else 5, 2, 2)
        chosen = rng.sample(main, min(len(main), n_main)) + rng.sample(rest, min(len(rest), n_rest))
        for m in chosen:
            k = rng.randint(2, 5)
            docs = valid[:k]
            pos = rng.randint(0, len(docs))
            docs = docs[:pos] + [m] + docs[pos:]
            vias = [VIAS[0]] + rng.sample(VIAS[1:], n_via - 1)     # default arguments always
            add(docs, rng.randint(1, len(docs) - 1), vias)
    # a rule with a malformed detection section (its log source is intact) met by a VALID filter that applies to it - through
    # "any" + log source, or through the rule's name -, in front of and behind it (seed C07s1: the filter re-validated the
    # placeholder detections of collecting mode and raised)
    vf_any = {"title": "VF any", "logsource": dict(LS), "filter": {"rules": "any", "fsel": {"User": "adm"}, "condition": "not fsel"}}
    vf_name = {"title": "VF name", "logsource": dict(LS), "filter": {"rules": ["bad", "r1"], "fsel": {"User|contains": "adm"}, "condition": "fsel"}}
    badbase = rule(name="bad")
    bad = [m for m in mutants(badbase, rng, False)
           if isinstance(m, dict) and m.get("logsource") == badbase["logsource"] and m.get("name") == "bad" and m.get("detection") != badbase["detection"]]
    bad += [dict(copy.deepcopy(d), name="bad") for d in SINGLES]
    for m in rng.sample(bad, min(len(bad), 160 if full else 14)):
        vf = rng.choice([vf_any, vf_name])
        docs = rng.choice([[vf, m, same_ls_rule("r1", LS)], [m, same_ls_rule("r1", LS), vf], [same_ls_rule("r1", LS), vf, m]])
        add(copy.deepcopy(docs), rng.randint(1, 2), [VIAS[0], rng.choice(VIAS[1:])])
    # two malformed documents, malformed filter + malformed rule with the same log source
    for _ in range(400 if full else 30):
        (k1, d1), (k2, d2) = rng.choice(bases), rng.choice(bases)
        m1 = rng.choice([m for m in mutants(d1, rng, False) if isinstance(m, dict)])
        m2 = rng.choice([m for m in mutants(d2, rng, False) if isinstance(m, dict)])
        docs = [same_ls_rule("r1", LS), m1, m2, same_ls_rule("r2", OTHER_LS)]
        rng.shuffle(docs)
        add(docs, rng.randint(1, 3), [VIAS[0], rng.choice(VIAS[1:])])
    return cases


# ---- text level ----
def yaml_dump(v, ind=0):
    """tiny emitter for the value shapes used here (block style), so that duplicates can be injected"""
    import yaml
    return yaml.safe_dump(v, sort_keys=False, allow_unicode=True)


def gen_yaml(tier, rng):
    import yaml
    cases = []
    for kind, docs in (("rule", RULES), ("corr", CORRS), ("filter", FILTERS)):
        for d in docs:
            try:
                text = yaml.safe_dump(d, sort_keys=False, allow_unicode=True)
            except Exception:
                continue
            cases.append({"kind": kind, "text": text})
            cases.append({"kind": "coll", "text": text})
            lines = text.splitlines()
            top = [i for i, l in enumerate(lines) if l and not l.startswith((" ", "-"))]
            for i in (top if tier != "quick" else rng.sample(top, min(2, len(top)))):
                j = top[top.index(i) + 1] if top.index(i) + 1 < len(top) else len(lines)
                dup = "\n".join(lines + lines[i:j]) + "\n"            # duplicated top-level key (same value)
                cases.append({"kind": kind, "text": dup})
                cases.append({"kind": "coll", "text": dup})
                k = lines[i].split(":")[0]
                cases.append({"kind": "coll", "text": text + f"{k}: 5\n"})   # duplicated with another value
            cases.append({"kind": "coll", "text": text + "---\n" + text})
            cases.append({"kind": "coll", "text": text + "---\n"})       # trailing empty document
            cases.append({"kind": "coll", "text": "---\n- a\n- b\n---\n" + text})
    for t in ["", "---\n", "- a\n", "x\n", "5\n", "null\n", "title: [\n", "a: b: c\n", "? [a, b]\n: c\n", "title: &a x\nname: *a\n"]:
        for kind in ("rule", "corr", "filter", "coll"):
            cases.append({"kind": kind, "text": t})
    return cases


# ------------------------------------------------------------------------------------------------
# known findings (predicates on the input; see known_findings.d/C07.json)
def is_corr_doc(d):
    return d[0] == "m"


def tag_get(t, key):
    if t[0] != "m": return None
    for k, v in t[1]:
        if k == ["s", key]: return v
    return None


def corr_nonstring_ref(doc_t):
    c = tag_get(doc_t, "correlation")
    if c is None: return False
    r, k = tag_get(c, "rules"), tag_get(c, "condition")
    return r is not None and r[0] == "l" and any(x[0] != "s" for x in r[1]) and k is not None and k[0] == "s"


CORR_RAISE = {"SigmaCorrelationRuleError", "SigmaCorrelationConditionError"}


def known_doc(kind, doc_t, r):
    strict, collect = r["strict"], r["collect"]
    if kind in ("rule", "corr", "filter") and doc_t[0] != "m":
        return "C07-nonmap-document"
    if kind == "corr" and corr_nonstring_ref(doc_t) and "crash" in (strict[0], collect[0]) \
            and all(o[0] != "crash" or o[1] == "TypeError" for o in (strict, collect)):
        return "C07-corr-nonstring-rule-reference"
    if kind == "corr" and collect[0] == "sigma" and collect[1] in CORR_RAISE and strict[0] == "sigma":
        return "C07-corr-collect-raises"
    return None


def known_load(c, r):
    return known_doc(c["kind"], c["doc"], r)


def known_coll(c, r):
    if "doc" not in c: return None
    t = c["doc"]
    members = t[1] if t[0] == "l" else []
    for m in members:
        if m[0] != "m": continue
        kind = "corr" if tag_get(m, "correlation") is not None else "filter" if tag_get(m, "filter") is not None else "rule"
        if kind == "rule" and tag_get(m, "action") is not None: kind = "rule"
        k = known_doc(kind, m, r)
        if k: return k
    # only SIGMA errors escaping from filter application / reference resolution belong to this finding: any other
    # exception class is a violation
    post = c["kind"] == "colldef" or (c["kind"] == "collx" and (not c["cf"] or c["rr"] or c["via"] in ("merge", "ruleset")))
    if post and r["collect"][0] == "sigma" and r["collect"][1] in ("SigmaRuleNotFoundError", "SigmaTypeError") \
            and r["strict"][0] != "crash":
        return "C07-collection-postprocessing-raises"
    return None


def known_yaml(c, r):
    import yaml
    try:
        docs = list(yaml.safe_load_all(c["text"]))
        tagged = [to_tag(d) for d in docs]
    except Exception:
        return None
    if c["kind"] == "coll":
        return known_coll({"kind": "coll", "doc": ["l", tagged]}, r)
    if len(tagged) > 1: return None
    return known_doc(c["kind"], ["m", []] if not tagged or tagged[0] == ["n"] else tagged[0], r)


# ------------------------------------------------------------------------------------------------
def load_to_coq(c, r):
    if "exc" in r: return None
    facts = clist(f"({cstr(s)}, {b})" for s, b in r["facts"])
    exts = clist(f"({cstr(s)}, {copt(clist(cstr(x) for x in e) if e is not None else None)})" for s, e in r["exts"])
    feq = cbool(r["first_eq"] is not False)
    return f"(mkcase {KINDS[c['kind']]} {facts} {exts} {tag_coq(c['doc'])} {out_coq(r['strict'])} {out_coq(r['collect'])} {feq})"


def coll_to_coq(c, r):
    """collections: judged against Model/Collection.v when loaded through from_dicts, property only otherwise"""
    if "exc" in r: return None
    if r["strict"][0] == "yaml" and r["collect"][0] == "yaml": return None
    t = c["doc"]
    if c["kind"] == "coll": modelled, cf, rr = True, True, False
    elif c["kind"] == "colldef": modelled, cf, rr = True, False, True
    else: modelled, cf, rr = c["via"] == "dicts", c["cf"], c["rr"]
    if t[0] != "l": return None
    if not modelled:
        return f"(mkcoll false [] [] [] [] {cbool(cf)} {cbool(rr)} {out_coq(r['strict'])} {out_coq(r['collect'])})"
    facts = clist(f"({cstr(s)}, {b})" for s, b in r["facts"])
    ukeys = clist(f"({cstr(s)}, {b})" for s, b in r["ukeys"])
    exts = clist(f"({cstr(s)}, {copt(clist(cstr(x) for x in e))})" for s, e in r["exts"])
    docs = clist(tag_coq(x) for x in t[1])
    return f"(mkcoll true {facts} {ukeys} {exts} {docs} {cbool(cf)} {cbool(rr)} {out_coq(r['strict'])} {out_coq(r['collect'])})"


def prop_to_coq(c, r):
    if "exc" in r: return None
    if r["strict"][0] == "yaml" or r["collect"][0] == "yaml":
        # rejected by the YAML layer in both modes (syntax error, or a duplicate key under SigmaYAMLLoader): not a
        # YAML-representable document; anything else is judged
        if r["strict"][0] == "yaml" and r["collect"][0] == "yaml": return None
    return f"(mkprop {out_coq(r['strict'])} {out_coq(r['collect'])} {cbool(r['first_eq'] is not False)})"


def harness_oracle(c, r):
    if "exc" in r: return "implementation runner failed: " + str(r)
    if r.get("first_eq") is False:
        return "the first collected error is not equal (SigmaError.__eq__) to the exception strict loading raises"
    return None


def stratum(c, r):
    if "exc" in r: return "runner-error"
    return f"{c['kind']}:{r['strict'][0]}/{r['collect'][0]}"


def _to_py(t):
    k = t[0]
    if k == "n": return None
    if k == "b": return bool(t[1])
    if k == "i": return int(t[1])
    if k == "f": return float(t[1])
    if k == "s": return t[1]
    if k == "d": return D.fromisoformat(t[1])
    if k == "l": return [_to_py(x) for x in t[1]]
    return {_to_py(a): _to_py(b) for a, b in t[1]}


def mutate_case(c, rng):
    """neighbourhood of a case for the violation search: one more mutation of the same document"""
    if "doc" not in c: return []
    try:
        doc = _to_py(c["doc"])
        ms = mutants(doc, rng, False)
    except Exception:
        return []
    ms = rng.sample(ms, min(len(ms), 150))
    out = []
    for m in ms:
        try:
            out.append(dict(c, doc=to_tag(m)))
        except TypeError:
            pass
    return out


REQ = ["Base.Chars", "Base.Outcome", "Model.Yaml", "Model.Loader", "Model.CollLoader", "Spec.LoaderSpec", "Run.C07run"]
PROPERTY = Property(
    pid="C07", props_file="Props/C07.v",
    suites=[
        Suite("load", gen_load, "run_load", REQ, "judge_load", load_to_coq, known=known_load, py_oracle=harness_oracle,
              mutate=mutate_case, stratum=stratum, shard=500),
        Suite("coll", gen_coll, "run_load", REQ, "judge_coll", coll_to_coq, known=known_coll, py_oracle=harness_oracle,
              mutate=mutate_case, stratum=stratum, shard=800),
        Suite("collx", gen_collx, "run_collx", REQ, "judge_coll", coll_to_coq, known=known_coll, py_oracle=harness_oracle,
              stratum=lambda c, r: "runner-error" if "exc" in r else f"{c['via']}:cf={c['cf']}:rr={c['rr']}:{r['strict'][0]}/{r['collect'][0]}",
              shard=1500),
        Suite("yaml", gen_yaml, "run_yaml", REQ, "judge_prop", prop_to_coq, known=known_yaml, py_oracle=harness_oracle,
              stratum=stratum, shard=800),
    ],
    rule="60 valid base documents (25 rules, 20 correlation rules of every type, 8 filters, 7 collections with actions); at every path: the "
         "value replaced by each of {null,true,0,1.5,'','x',[],['x'],{},{'x':1},date} and hostile values (nan, inf, 10**400, 257 characters, "
         "nested containers, non-ASCII case mappings), the key deleted / replaced by 5,null,true,1.5,'' / duplicated in another spelling, "
         "out-of-range enums, dates, UUIDs, timespans, operators, modifier chains x values, two mutations at once, whole documents of "
         "another type, documents handed to the wrong loader, random nested YAML of depth <= 4; text level: duplicated keys, several and "
         "empty documents. Compared per case: (raised class | ok, error-class list) in strict and collecting mode, and errors[0] == raised "
         "exception. non-trivial = strict loading does not succeed; distinct by case hash",
    assumptions=[
        "uuid.UUID, int(), re.compile, ipaddress.ip_network and the pyparsing reading of extended correlation conditions are library "
        "parameters of the model (record lib); per case they are instantiated with what CPython answers for the strings of the document "
        "(impl/c07.py facts_of, ext_parse - an independent PEG reading of the ten-line grammar, compared with pyparsing on 30000 random strings)",
        "str.upper() is modelled for ASCII plus the ten code points whose upper-case form consists of ASCII letters",
        "collections (SigmaCollection.from_dicts) and from_yaml are not modelled in Coq: the property is evaluated on the real outcome only",
        "a document rejected by the YAML layer in both modes (syntax error, duplicate key under SigmaYAMLLoader) is not YAML-representable",
        "error equality is SigmaError.__eq__ (class, message, source) evaluated by the implementation; the model compares classes",
    ],
)
