"""AST scan of sigma/ for places where the iteration order of a set, or a draw (random, id(), hash()),
can flow into a value: `for ... in <set-typed expr>`, comprehensions over sets, join/list/tuple/str/
enumerate/zip/next/iter/extend/f-string/star of a set-typed expression, set.pop(), calls into `random`,
`secrets`, `uuid` generators, `time`, `id()`, `hash()`.

Set-typedness is inferred from annotations (set[...], frozenset, Set[...]) of variables, attributes,
parameters and function results anywhere in sigma/, from constructors (set(), {..}, set comprehensions),
set operators on set-typed operands, local assignments, and names ending in `_set`.  The inference is a
heuristic: the scan supports the claim that the model lists all output-reaching sites, it does not prove it.
Every site found must be in REVIEWED (keyed by file, function, kind and expression text - not by line), else
the check fails."""
import ast, os

DRAW_MODULES = ("random", "secrets", "uuid", "time", "datetime")
DRAW_FUNCS = ("id", "hash", "uuid4", "uuid1", "urandom", "choices", "choice", "randint", "shuffle", "sample",
              "getrandbits", "token_hex")
ORDER_CALLS = ("list", "tuple", "str", "repr", "next", "iter", "enumerate", "zip", "map", "filter", "reversed")
REPR_OBJECTS = ("self", "rule", "pipeline", "transformation", "processing_item", "item", "detection_item", "detection",
                "condition", "cond", "backend", "collection")
DICT_OF_SETS = {"target_fields", "field_mappings", "exclusions"}


def _is_set_ann(a):
    if a is None:
        return False
    s = ast.unparse(a).strip("\"'")
    return s.startswith(("set[", "Set[", "frozenset", "FrozenSet[", "AbstractSet", "MutableSet")) or s in ("set", "Set")


def _collect(tree):
    names = set()
    for n in ast.walk(tree):
        if isinstance(n, ast.AnnAssign) and _is_set_ann(n.annotation):
            t = n.target
            names.add(t.id if isinstance(t, ast.Name) else t.attr if isinstance(t, ast.Attribute) else None)
        if isinstance(n, ast.arg) and _is_set_ann(n.annotation):
            names.add(n.arg)
        if isinstance(n, (ast.FunctionDef, ast.AsyncFunctionDef)) and _is_set_ann(n.returns):
            names.add(n.name + "()")
    names.discard(None)
    return names


_DICT_HEADS = ("dict[", "Dict[", "defaultdict[", "DefaultDict[", "UserDict[", "Mapping[", "MutableMapping[", "OrderedDict[")


def _is_dict_of_sets_text(t, dos_classes):
    t = t.strip("\"'")
    if t.startswith(_DICT_HEADS) and ("set[" in t or "Set[" in t or "frozenset" in t):
        return True
    return t.split("[")[0].split(".")[-1] in dos_classes


def _collect_dict_of_sets(trees):
    """names of variables / attributes / parameters / functions whose values are dicts of sets: annotated
    dict[..., set[...]] (or defaultdict / UserDict / Mapping ...), or annotated with a class derived from such a type"""
    dos_classes = set()
    for t in trees.values():
        for n in ast.walk(t):
            if isinstance(n, ast.ClassDef) and any(_is_dict_of_sets_text(ast.unparse(b), ()) for b in n.bases):
                dos_classes.add(n.name)
    names = set(dos_classes)
    for t in trees.values():
        for n in ast.walk(t):
            if isinstance(n, ast.AnnAssign) and _is_dict_of_sets_text(ast.unparse(n.annotation), dos_classes):
                tg = n.target
                names.add(tg.id if isinstance(tg, ast.Name) else tg.attr if isinstance(tg, ast.Attribute) else None)
            if isinstance(n, ast.arg) and n.annotation is not None and _is_dict_of_sets_text(ast.unparse(n.annotation), dos_classes):
                names.add(n.arg)
            if isinstance(n, (ast.FunctionDef, ast.AsyncFunctionDef)) and n.returns is not None \
                    and _is_dict_of_sets_text(ast.unparse(n.returns), dos_classes):
                names.add(n.name + "()")
            if isinstance(n, ast.Assign) and isinstance(n.value, ast.Call) and isinstance(n.value.func, ast.Name) \
                    and n.value.func.id in ("defaultdict",) and n.value.args and isinstance(n.value.args[0], ast.Name) \
                    and n.value.args[0].id in ("set", "frozenset"):
                for tg in n.targets:
                    names.add(tg.id if isinstance(tg, ast.Name) else tg.attr if isinstance(tg, ast.Attribute) else None)
    names.discard(None)
    return names


def scan_repo(root):
    files = []
    for d, _, fs in os.walk(os.path.join(root, "sigma")):
        for f in fs:
            if f.endswith(".py"):
                files.append(os.path.join(d, f))
    files.sort()
    trees = {f: ast.parse(open(f, encoding="utf-8").read()) for f in files}
    GLOBAL = set()
    for t in trees.values():
        GLOBAL |= _collect(t)
    DOS = set(DICT_OF_SETS) | _collect_dict_of_sets(trees)

    def dict_of_sets(e, local_dos=()):
        if isinstance(e, ast.Name):
            return e.id in DOS or e.id in local_dos
        if isinstance(e, ast.Attribute):
            return e.attr in DOS
        if isinstance(e, ast.Call) and isinstance(e.func, ast.Name):
            return e.func.id + "()" in DOS or e.func.id in DOS
        if isinstance(e, ast.Call) and isinstance(e.func, ast.Attribute):
            return e.func.attr + "()" in DOS
        return False

    def settyped(e, local):
        if isinstance(e, (ast.Set, ast.SetComp)):
            return True
        if isinstance(e, ast.Call):
            f = e.func
            if isinstance(f, ast.Name) and (f.id in ("set", "frozenset") or f.id + "()" in GLOBAL):
                return True
            if isinstance(f, ast.Attribute):
                if f.attr + "()" in GLOBAL:
                    return True
                if f.attr in ("union", "intersection", "difference", "symmetric_difference", "copy") and settyped(f.value, local):
                    return True
                if f.attr in ("get", "pop", "setdefault") and dict_of_sets(f.value, LOCAL_DOS[-1]):
                    return True
            return False
        if isinstance(e, ast.BinOp) and isinstance(e.op, (ast.BitOr, ast.BitAnd, ast.Sub, ast.BitXor)):
            return settyped(e.left, local) or settyped(e.right, local)
        if isinstance(e, ast.Name):
            return (e.id in local or e.id in GLOBAL or e.id.endswith("_set")) and e.id not in NOTSET[-1]
        if isinstance(e, ast.Attribute):
            if isinstance(e.value, ast.Name) and e.value.id == "self" and e.attr in CLASS_NOTSET[-1]:
                return False        # the class at hand declares this attribute with a type that is not a set
            return e.attr in GLOBAL or e.attr in local
        if isinstance(e, ast.Subscript):
            return dict_of_sets(e.value, LOCAL_DOS[-1])
        if isinstance(e, ast.IfExp):
            return settyped(e.body, local) or settyped(e.orelse, local)
        return False

    LOCAL_DOS = [set()]
    CLASS_NOTSET = [set()]   # attributes the class at hand annotates (class body) with a type that is not a set
    NOTSET = [set()]     # locals of the function at hand that are annotated with / bound to something that is not a set
    sites = []
    def _is_id_call(e):
        return isinstance(e, ast.Call) and isinstance(e.func, ast.Name) and e.func.id == "id" and len(e.args) == 1

    for f, tree in trees.items():
        # id(x) used only for identity bookkeeping - compared (in / not in / == / is), put into or looked up in a set or dict
        # (visited.add(id(x)), seen[id(x)], d.get(id(x))) - cannot reach output as a value; iterating such a set is a
        # set-iteration site of its own
        exempt = set()
        for m in ast.walk(tree):
            if isinstance(m, ast.Compare) and all(isinstance(o, (ast.In, ast.NotIn, ast.Eq, ast.NotEq, ast.Is, ast.IsNot)) for o in m.ops):
                exempt.update(id(e) for e in [m.left] + m.comparators if _is_id_call(e))
            if isinstance(m, ast.Call) and isinstance(m.func, ast.Attribute) and m.args and _is_id_call(m.args[0]) \
                    and m.func.attr in ("add", "discard", "remove", "get", "setdefault", "pop", "__contains__"):
                exempt.add(id(m.args[0]))
            if isinstance(m, ast.Subscript) and _is_id_call(m.slice):
                exempt.add(id(m.slice))
        rel = os.path.relpath(f, root)

        class V(ast.NodeVisitor):
            def __init__(s):
                s.stack, s.local = [], [set()]

            def qual(s):
                return ".".join(s.stack) or "<module>"

            def visit_ClassDef(s, n):
                decl = {m.target.id for m in n.body if isinstance(m, ast.AnnAssign) and isinstance(m.target, ast.Name)
                        and not _is_set_ann(m.annotation)}
                CLASS_NOTSET.append(decl)
                s.stack.append(n.name); s.generic_visit(n); s.stack.pop()
                CLASS_NOTSET.pop()

            def visit_FunctionDef(s, n):
                s.stack.append(n.name)
                loc = set()
                ldos = set()
                for m in ast.walk(n):       # locals that alias a dict of sets
                    if isinstance(m, ast.Assign) and dict_of_sets(m.value, ldos):
                        for t in m.targets:
                            if isinstance(t, ast.Name):
                                ldos.add(t.id)
                LOCAL_DOS.append(ldos | LOCAL_DOS[-1])
                notset = set()
                for m in ast.walk(n):       # x: dict[...] = {} / x: list[...] = [] ... : the annotation of a local decides
                    if isinstance(m, ast.AnnAssign) and isinstance(m.target, ast.Name) and not _is_set_ann(m.annotation):
                        notset.add(m.target.id)
                for m in ast.walk(n):       # ... unless the same name is also bound to a set somewhere in the function
                    if isinstance(m, ast.AnnAssign) and isinstance(m.target, ast.Name) and _is_set_ann(m.annotation):
                        notset.discard(m.target.id)
                NOTSET.append(notset)
                for m in ast.walk(n):       # for k, v in d.items() / for v in d.values()  with d a dict of sets
                    gens = [m] if isinstance(m, ast.For) else getattr(m, "generators", []) if isinstance(
                        m, (ast.ListComp, ast.SetComp, ast.DictComp, ast.GeneratorExp)) else []
                    for g in gens:
                        it = g.iter
                        if isinstance(it, ast.Call) and isinstance(it.func, ast.Attribute) and it.func.attr in ("items", "values") \
                                and dict_of_sets(it.func.value, LOCAL_DOS[-1]):
                            tg = g.target
                            if it.func.attr == "items" and isinstance(tg, ast.Tuple) and len(tg.elts) == 2:
                                tg = tg.elts[1]
                            if isinstance(tg, ast.Name):
                                loc.add(tg.id)
                for _ in range(2):      # two passes: assignments from earlier set-typed locals
                    for m in ast.walk(n):
                        if isinstance(m, ast.Assign) and settyped(m.value, loc | s.local[-1]):
                            for t in m.targets:
                                if isinstance(t, ast.Name):
                                    loc.add(t.id)
                        if isinstance(m, ast.AnnAssign) and isinstance(m.target, ast.Name) and (
                                _is_set_ann(m.annotation) or (m.value is not None and settyped(m.value, loc | s.local[-1]))):
                            loc.add(m.target.id)
                s.local.append(loc | s.local[-1]); s.generic_visit(n); s.local.pop(); s.stack.pop(); LOCAL_DOS.pop(); NOTSET.pop()
            visit_AsyncFunctionDef = visit_FunctionDef

            def add(s, kind, n, e):
                sites.append({"file": rel, "func": s.qual(), "kind": kind, "expr": ast.unparse(e), "line": n.lineno})

            def visit_For(s, n):
                if settyped(n.iter, s.local[-1]):
                    s.add("for", n, n.iter)
                s.generic_visit(n)

            def visit_comprehension(s, n):
                if settyped(n.iter, s.local[-1]):
                    s.add("comp", n.iter, n.iter)
                s.generic_visit(n)

            def visit_Call(s, n):
                f = n.func
                L = s.local[-1]
                if isinstance(f, ast.Attribute) and f.attr == "join" and n.args and settyped(n.args[0], L):
                    s.add("join", n, n.args[0])
                if isinstance(f, ast.Name) and f.id in ORDER_CALLS and any(settyped(a, L) for a in n.args):
                    s.add(f.id, n, n)
                if isinstance(f, ast.Attribute) and f.attr == "pop" and not n.args and settyped(f.value, L):
                    s.add("setpop", n, n)
                if isinstance(f, ast.Attribute) and f.attr == "extend" and n.args and settyped(n.args[0], L):
                    s.add("extend", n, n)
                if isinstance(f, ast.Attribute) and isinstance(f.value, ast.Name) and f.value.id in DRAW_MODULES \
                        and f.attr not in ("UUID", "strptime", "fromisoformat", "timedelta", "date", "datetime"):
                    s.add("draw", n, n)
                if isinstance(f, ast.Name) and f.id in DRAW_FUNCS and id(n) not in exempt:
                    s.add("draw", n, n)
                s.generic_visit(n)

            def visit_Raise(s, n):
                # an object's whole representation interpolated into an exception message: f"...{self}...",
                # str(self) / repr(self), "%s" % self, and the same for whole rule / pipeline / item objects
                if n.exc is not None:
                    for m in ast.walk(n.exc):
                        e = None
                        if isinstance(m, ast.FormattedValue) and isinstance(m.value, ast.Name):
                            e = m.value
                        elif isinstance(m, ast.Call) and isinstance(m.func, ast.Name) and m.func.id in ("str", "repr") \
                                and len(m.args) == 1 and isinstance(m.args[0], ast.Name):
                            e = m.args[0]
                        if e is not None and e.id in REPR_OBJECTS:
                            s.add("msgrepr", n, e)
                s.generic_visit(n)

            def visit_FormattedValue(s, n):
                if settyped(n.value, s.local[-1]):
                    s.add("fstring", n, n.value)
                s.generic_visit(n)

            def visit_Starred(s, n):
                if settyped(n.value, s.local[-1]):
                    s.add("star", n, n.value)
                s.generic_visit(n)
        V().visit(tree)
    return sites


# (file, function, kind, expression) -> "<class>: why".  Classes:
#   modelled     - reaches output, in Model/Determinism.v with an order / draw parameter, theorem proved
#   commutative  - iteration only feeds an order-independent accumulation (set/dict update, |=, membership)
#   not-a-set    - the heuristic fired on a list / dict / other ordered value
#   internal     - the value never reaches queries, error records or issues
#   invariant    - the iteration IS order-sensitive in general and is harmless only because of a stated invariant;
#                  the statements establishing the invariant are listed in GUARDS and checked on every run
REVIEWED = {}


def _r(file, func, kind, expr, why):
    REVIEWED[(file, func, kind, expr)] = why


_r("sigma/correlations.py", "SigmaCorrelationCondition.from_dict", "for", "SigmaCorrelationConditionOperator.operators()",
   "invariant: ORDER-SENSITIVE (first operator of the set that is a key of the dict wins) unless exactly one operator "
   "key is present in d; the guard `len(d_keys.intersection(ops)) != 1` over d_keys = ALL keys of d raises before the "
   "loop otherwise.  Modelled: Model/Determinism.v corr_from_dict (find over ord O corr_ops), theorem "
   "C20_corr_condition_order_free; the guard statements are checked by the scan (GUARDS)")
# statements (ast.unparse form) that must occur in the function for the invariant of an `invariant:` site to hold
GUARDS = {
    ("sigma/correlations.py", "SigmaCorrelationCondition.from_dict", "for", "SigmaCorrelationConditionOperator.operators()"): [
        "d_keys = frozenset(d.keys())",
        "ops = frozenset(SigmaCorrelationConditionOperator.operators())",
        "if len(d_keys.intersection(ops)) != 1:\n        raise sigma_exceptions.SigmaCorrelationConditionError(",
        "if op in d:",
    ],
}


def _function_text(root, file, func):
    tree = ast.parse(open(os.path.join(root, file), encoding="utf-8").read())
    node = tree
    for part in func.split("."):
        node = next((n for n in ast.walk(node) if isinstance(n, (ast.ClassDef, ast.FunctionDef, ast.AsyncFunctionDef))
                     and n.name == part and n is not node), None)
        if node is None:
            return ""
    return ast.unparse(node)


def check_guards(root):
    """-> list of (site key, missing statement).  A guard is a statement (ast.unparse form) of the site's own function,
    or a triple (file, qualified name, statement) for a statement elsewhere."""
    missing = []
    for key, stmts in GUARDS.items():
        for st in stmts:
            file, func, text = (key[0], key[1], st) if isinstance(st, str) else st
            if text not in _function_text(root, file, func):
                missing.append((key, text if isinstance(st, str) else f"{file} {func}: {text}"))
    return missing
_r("sigma/correlations.py", "SigmaCorrelationCondition.from_dict", "comp", "unknown_keys",
   "sorted: the generator over the set is the argument of sorted(), the join sees a sorted list (keys are "
   "stringified first so that non-string keys give a Sigma error instead of TypeError)")
_r("sigma/rule/base.py", "SigmaYAMLLoader.construct_mapping", "draw", "hash(key)",
   "internal: the value of hash() is discarded, the call only tests hashability of a YAML mapping key "
   "(TypeError -> YAMLError)")
_r("sigma/collection.py", "SigmaCollection.resolve_rule_references", "draw", "id(rule)",
   "internal: object identities are only put into / looked up in membership sets (members, visited) of the "
   "topological ordering (C09 repair); the sets are never iterated and the ids never rendered; the order "
   "is driven by the rule list and the referenced_rules lists")
_r("sigma/collection.py", "SigmaCollection.resolve_rule_references.visit", "draw", "id(rule)",
   "internal: same membership tests inside the nested visit() of the topological ordering")
_r("sigma/exceptions.py", "SigmaRuleLocation.__str__", "str", "str(self.path.resolve())",
   "not-a-set: pathlib.Path.resolve(), the heuristic knows a set-returning function of the same name")
_r("sigma/filters.py", "SigmaFilter.apply_on_rule", "draw", "random.choices(string.ascii_lowercase, k=10)",
   "modelled: filter prefix, Model/Determinism.v apply_filter, theorem C20_no_internal_ids")
_r("sigma/processing/transformations/condition.py", "AddConditionTransformation", "draw",
   "random.choices(string.ascii_lowercase, k=10)",
   "modelled: add_condition name, Model/Determinism.v add_cond, theorem C20_no_internal_ids")
_r("sigma/processing/pipeline.py", "ProcessingItemBase._generate_identifier", "draw", "id(self)",
   "internal: only used when the content list is empty, which cannot happen (rule_condition_negation is always "
   "appended); the identifier is a key of applied_processing_items and never rendered")
_r("sigma/processing/templates.py", "TemplateBase._load_vars_from_file", "draw", "id(spec)",
   "internal: name of a synthetic module object for importlib, never rendered")
_r("sigma/processing/tracking.py", "FieldMappingTracking.add_mapping", "for", "source_fields",
   "modelled: Model/Determinism.v add_mapping (ord O sfs); commuting in-place updates, theorem C20_tracking_order_free")
_r("sigma/processing/tracking.py", "FieldMappingTracking.merge", "list", "list(target_set)",
   "modelled: Model/Determinism.v merge (ord O); add_mapping uses its target only as a set")
_r("sigma/processing/transformations/base.py", "FieldMappingTransformationBase.apply", "for", "rule.aliases",
   "not-a-set: SigmaCorrelationFieldAliases (dict based); the local set `aliases` is only used for membership")
_r("sigma/processing/transformations/failure.py", "StrictFieldMappingFailure.apply", "for", "all_fields",
   "modelled: Model/Determinism.v strict_msg (ord O all_fields), result sorted before the join (repair), "
   "theorem C20_order_free")
_r("sigma/rule/detection.py", "SigmaDetectionItem.apply_modifiers", "for", "self.modifiers",
   "not-a-set: list of modifier classes in source order")
_r("sigma/rule/detection.py", "SigmaDetectionItem.to_plain", "comp", "self.modifiers",
   "not-a-set: list of modifier classes in source order")
_r("sigma/types.py", "SigmaRegularExpression.compile", "for", "self.flags",
   "modelled: Model/Determinism.v py_flags, bitwise or is commutative, theorem C20_regex_flags_order_free")
_r("sigma/types.py", "SigmaRegularExpression.escape", "comp", "self.flags",
   "modelled: Model/Determinism.v flag_prefix, sorted() before the join, theorem C20_regex_flags_order_free")
_r("sigma/validation.py", "SigmaValidator.validate_rule", "for", "self.validators",
   "not-a-set: list since the repair (order given by the caller, from_dict sorts the names)")
_r("sigma/validation.py", "SigmaValidator.finalize", "comp", "self.validators",
   "not-a-set: list since the repair")


# ---- object representations in exception messages ----------------------------------------------------------------
_STR_T = ("sigma/processing/transformations/base.py", "Transformation.__str__", "if name == '_pipeline' and self._pipeline is not None:")
_STR_TI = ("sigma/processing/transformations/base.py", "Transformation.__str__", "return repr(self.processing_item.identifier)")
_STR_C = ("sigma/processing/conditions/base.py", "ProcessingCondition.__str__", "'...' if f.name == '_pipeline' and self._pipeline is not None else repr(getattr(self, f.name))")
_WHY_T = ("invariant: the text of str(self) is part of an error record; ORDER-SENSITIVE if it contains the owning pipeline "
          "(applied_ids, field_mappings and other tracking sets).  Invariant: Transformation.__str__ renders the processing item "
          "as its identifier and elides the pipeline (repair); guard statements checked by the scan; process corpus "
          "entries convert-type-*")
_WHY_C = ("invariant: str(self) of a processing condition in an error record raised while matching (pipeline set): "
          "ORDER-SENSITIVE if it contains the owning pipeline.  Invariant: ProcessingCondition.__str__ elides the pipeline "
          "(repair); guard checked by the scan; process corpus entries cond-msg-*")
for _f in ("ConvertTypeTransformation.apply_value",):
    _r("sigma/processing/transformations/values.py", _f, "msgrepr", "self", _WHY_T)
    GUARDS[("sigma/processing/transformations/values.py", _f, "msgrepr", "self")] = [_STR_T, _STR_TI]
for _f in ("RuleAttributeCondition.__post_init__", "RuleAttributeCondition.match"):
    _r("sigma/processing/conditions/rule.py", _f, "msgrepr", "self", _WHY_C)
    GUARDS[("sigma/processing/conditions/rule.py", _f, "msgrepr", "self")] = [_STR_C]
for _f in ("ProcessingStateConditionBase.match_state", "RuleProcessingStateCondition.match",
           "FieldNameProcessingStateCondition.match_field_name", "DetectionItemProcessingStateCondition.match",
           "FieldNameProcessingItemAppliedCondition.match_field_name"):
    _r("sigma/processing/conditions/state.py", _f, "msgrepr", "self", _WHY_C)
    GUARDS[("sigma/processing/conditions/state.py", _f, "msgrepr", "self")] = [_STR_C]
_r("sigma/processing/pipeline.py", "ProcessingItemBase._check_conditions", "msgrepr", "condition",
   "invariant: str(condition) in the type error of a processing item (raised in __post_init__, no pipeline yet); if the "
   "object is a ProcessingCondition its __str__ elides the pipeline; other objects are the user's")
GUARDS[("sigma/processing/pipeline.py", "ProcessingItemBase._check_conditions", "msgrepr", "condition")] = [_STR_C]


if __name__ == "__main__":
    import sys
    for x in scan_repo(sys.argv[1]):
        k = (x["file"], x["func"], x["kind"], x["expr"])
        print(("ok  " if k in REVIEWED else "NEW ") + f"{x['file']}:{x['line']} [{x['func']}] {x['kind']}: {x['expr']}")
