"""C06 - serialise / load round trip: correspondence suites.

det : detections sections (all shapes, modifier chains, hostile values): from_dict -> to_dict -> from_dict -> to_dict
      + queries of both objects; judged in Coq against Model/Serialize.v.
hist: one built-in transformation applied, then to_dict; the object state (fields, modifier classes, original
      values or None) is read from the implementation and the model's to_plain must produce the same dict / error;
      oracle: Sigma error, or the reloaded dict converts to the query of the transformed object.
doc : full documents (rules with all metadata fields, correlation rules of all 8 types, filters): dict and YAML
      round trips and backend.convert of all three objects; model of the metadata writer (which keys, which order).
"""
import itertools, json, random
from vlib.core import Property, Suite, cstr, clist, cbool, copt, cZ
from props.c05 import bs_adjacent

MODS = {
    'all': 'M_All',
    'neq': 'M_Negate',
    'base64': 'M_Base64',
    'base64offset': 'M_Base64Offset',
    'cased': 'M_CaseSensitive',
    'cidr': 'M_CIDR',
    'contains': 'M_Contains',
    'day': 'M_TimestampDay',
    'dotall': 'M_RegularExpressionDotAllFlag',
    'endswith': 'M_Endswith',
    'exists': 'M_Exists',
    'expand': 'M_Expand',
    'fieldref': 'M_FieldReference',
    'gt': 'M_GreaterThan',
    'gte': 'M_GreaterThanEqual',
    'hour': 'M_TimestampHour',
    'i': 'M_RegularExpressionIgnoreCaseFlag',
    'ignorecase': 'M_RegularExpressionIgnoreCaseFlag',
    'lt': 'M_LessThan',
    'lte': 'M_LessThanEqual',
    'm': 'M_RegularExpressionMultilineFlag',
    'minute': 'M_TimestampMinute',
    'month': 'M_TimestampMonth',
    'multiline': 'M_RegularExpressionMultilineFlag',
    're': 'M_RegularExpression',
    'utf16': 'M_UTF16',
    'utf16be': 'M_UTF16BE',
    's': 'M_RegularExpressionDotAllFlag',
    'startswith': 'M_Startswith',
    'week': 'M_TimestampWeek',
    'wide': 'M_Wide',
    'windash': 'M_WindowsDash',
    'year': 'M_TimestampYear',
}

SIGMA_ERR = {"SigmaValueError": 1, "SigmaTypeError": 3, "SigmaConditionError": 4, "SigmaModifierError": 6,
             "SigmaDetectionError": 7}
CRASH = {"TypeError": 2, "IndexError": 3}


# ------------------------------------------------------------------------------------------ encoders
def cpv(v):
    if isinstance(v, bool): return f"(PBool {cbool(v)})"
    if v is None: return "PNull"
    if isinstance(v, int): return f"(PInt {cZ(v)})"
    if isinstance(v, float):
        if v != v or v in (float("inf"), float("-inf")): return None
        if v.is_integer(): return f"(PFloatInt {cZ(int(v))})"
        return f"(PFloat {cstr(repr(v))})"
    if isinstance(v, str): return f"(PStrV {cstr(v)})"
    return None


def cmval(v):
    if isinstance(v, list):
        xs = [cpv(x) for x in v]
        if any(x is None for x in xs): return None
        return f"(MMany {clist(xs)})"
    x = cpv(v)
    return None if x is None else f"(MOne {x})"


def cddef(d):
    if isinstance(d, dict):
        es = []
        for k, v in d.items():
            if not isinstance(k, str): return None
            m = cmval(v)
            if m is None: return None
            es.append(f"({cstr(k)}, {m})")
        return f"(DMap {clist(es)})"
    if isinstance(d, list):
        xs = [cddef(x) for x in d]
        if any(x is None for x in xs): return None
        return f"(DList {clist(xs)})"
    x = cpv(d)
    return None if x is None else f"(DVal {x})"


def csec(det):
    """detections section dict -> (defs term, cond term)"""
    defs = []
    for n, d in det.items():
        if n == "condition": continue
        t = cddef(d)
        if t is None: return None
        defs.append(f"({cstr(n)}, {t})")
    if "condition" not in det: c = "CNone"
    else:
        c = det["condition"]
        if isinstance(c, str): c = f"(COne {cstr(c)})"
        elif isinstance(c, list) and all(isinstance(x, str) for x in c): c = f"(CMany {clist(cstr(x) for x in c)})"
        else: return None
    return clist(defs), c


def cout_sec(o):
    if "ok" in o:
        s = csec(o["ok"]) if isinstance(o["ok"], dict) else None
        if s is None: return "(Crash 77)"      # the implementation wrote something that is not a detections section
        return f"(Ok ({s[0]}, {s[1]}))"
    if "err" in o:
        # reloading the written dict failed while applying the modifiers, which the model leaves abstract
        if o.get("stage") == "reload" and o["err"] in ("SigmaValueError", "SigmaTypeError", "SigmaRegularExpressionError"):
            return "(SigmaErr 50)"
        return f"(SigmaErr {SIGMA_ERR.get(o['err'], 99)})"
    return f"(Crash {CRASH.get(o['crash'], 1)})"


def cout_str(o):
    if "ok" in o: return f"(Ok {cstr(json.dumps(o['ok'], sort_keys=True))})"
    if "err" in o: return f"(SigmaErr {SIGMA_ERR.get(o['err'], 99)})"
    return f"(Crash {CRASH.get(o['crash'], 1)})"


def cparts(ps):
    t = []
    for p in ps:
        if p[0] == "s": t.append(f"PStr {cstr(p[1])}")
        elif p[0] == "m": t.append("PMulti")
        elif p[0] == "q": t.append("PSingle")
        elif p[0] == "p": t.append(f"PPh {cstr(p[1])}")
        else: return None
    return clist(t)


def csval(v):
    if "np" in v: return "SNoPlain"
    if "s" in v:
        p = cparts(v["s"]); return None if p is None else f"(SStr {p})"
    if "re" in v:
        p = cparts(v["re"]); return None if p is None else f"(SRe {p})"
    if "i" in v: return f"(SNum {cZ(v['i'])})"
    if "fl" in v: return f"(SFlt {cstr(v['fl'])})"
    if "b" in v: return f"(SBool {cbool(v['b'])})"
    if "n" in v: return "SNull"
    return None


def cstate_det(d):
    if "mixed" in d: return "DMixed"
    if "subs" in d:
        xs = [cstate_det(x) for x in d["subs"]]
        if any(x is None for x in xs): return None
        return f"(DSubs {clist(xs)})"
    its = []
    for i in d["items"]:
        if i["f"] is not None and not isinstance(i["f"], str): return None
        if i["o"] is None: o = "None"
        else:
            vs = [csval(v) for v in i["o"]]
            if any(x is None for x in vs): return None
            o = f"(Some {clist(vs)})"
        f = "None" if i["f"] is None else f"(Some {cstr(i['f'])})"
        its.append(f"(mkItem {f} {clist(MODS[m] for m in i['m'])} {o} tt)")
    return f"({'DItemsOr' if d.get('or') else 'DItems'} {clist(its)})"


# ------------------------------------------------------------------------------------------ value pools
ALPHA = ['\\', '*', '?', 'a', '%', '|', ' ', 'B']
SMALL = ['\\', '*', '?', 'a', '%']
HOSTILE = ['', '\\\\', 'a\\*b', '%x%', '\\%x\\%', '100%', '%a\\*b%', 'C:\\dir\\', '\\\\srv\\share', '\u00e9\u20ac', 'null',
           'true', '1', '~', '- x', 'a: b', 'multi\nline', ' lead', 'trail ', "'q'", '"dq"', '*', '?', '\\*', '\\?',
           '\\\\*', '*a*', 'a|b', '|all', 'f|neq', '#c', '[x]', '{y}', '10.0.0.0/8', '-param /x', 'Ab.Cd', '.*', '^a$', 'a\\.b']
NUMS = [0, 1, -5, 2 ** 70, 1.0, 2.5, -0.0, 1e20, 1e-07, -3.25]
CORE = ['x', 'a*', '\\x', 'Ab', '%v%', 1, 2.5, 1.0, True, False, None, '10.0.0.0/8', '-p']
FIELDS = ['f', 'g', 'a b', 'f.x', '_', '\u00dcn\u00ef', 'F']
CHAINS = [[], ['contains'], ['startswith'], ['endswith'], ['all'], ['contains', 'all'], ['all', 'contains'], ['re'], ['re', 'i'],
          ['re', 'ignorecase'], ['re', 'm', 's'], ['re', 'dotall'], ['re', 'multiline'], ['re', 'i', 'm', 's'], ['cased'],
          ['base64'], ['base64offset'], ['base64offset', 'contains'], ['wide'], ['utf16'], ['utf16be'],
          ['wide', 'base64offset', 'contains'], ['windash'], ['windash', 'contains', 'all'], ['expand'], ['contains', 'expand'],
          ['cidr'], ['fieldref'], ['fieldref', 'startswith'], ['neq'], ['contains', 'neq'], ['re', 'i', 'neq'], ['exists'],
          ['lt'], ['gte'], ['gt', 'neq'], ['minute'], ['year'], ['cased', 'contains'], ['endswith', 'cased'], ['unknown'], ['utf16le'],
          ['re', 'contains'], ['i'], ['contains', 're']]


def small_strings(tier):
    out = []
    kfull = 2 if tier == "quick" else 3
    for k in range(kfull + 1):
        out += ["".join(t) for t in itertools.product(ALPHA, repeat=k)]
    for k in range(kfull + 1, (3 if tier == "quick" else 5) + 1):
        out += ["".join(t) for t in itertools.product(SMALL if k <= 4 else SMALL[:4], repeat=k)]
    return out


def rvalue(rng):
    r = rng.random()
    if r < 0.45: return rng.choice(HOSTILE)
    if r < 0.7: return "".join(rng.choice(ALPHA + ['\\', '*', 'x', '.', '-', '/']) for _ in range(rng.randint(0, 7)))
    if r < 0.85: return rng.choice(NUMS)
    if r < 0.93: return rng.choice([True, False])
    return None


def rkey(rng):
    r = rng.random()
    if r < 0.04: return ""
    f = rng.choice(FIELDS) if rng.random() < 0.95 else ""
    ch = rng.choice(CHAINS) if rng.random() < 0.75 else []
    return "|".join([f] + ch)


STR_CHAINS = [c for c in CHAINS if c and c[0] not in ("cidr", "exists", "lt", "gte", "gt", "minute", "year", "unknown", "utf16le", "i")
              and c != ["contains", "re"] and "base64" not in c and "base64offset" not in c and "re" not in c] + [[], [], []]
SAFE = False


def rmapping(rng, n=None):
    m = {}
    for _ in range(n or rng.choice([1, 1, 2, 2, 3])):
        if SAFE:
            # mostly loadable: chain chosen after the value type
            v = rvalue(rng)
            f = rng.choice(FIELDS)
            if isinstance(v, str):
                ch = rng.choice(STR_CHAINS + [["re"], ["re", "i"], ["base64"], ["base64offset", "contains"]])
                if "re" in ch: v = rng.choice(["a.*b", "^x$", "\\d+", "[ab]\\*", "x"])
                if "base64" in ch or "base64offset" in ch: v = v.replace("*", "s").replace("?", "q")
            elif isinstance(v, bool): ch = rng.choice([[], ["exists"]])
            elif isinstance(v, (int, float)): ch = rng.choice([[], [], ["lt"], ["gte"], ["minute"]])
            else: ch = []
            k = "|".join([f] + ch)
            if rng.random() < 0.25 and "exists" not in ch: v = [v, rvalue(rng) if not ch else v]
        else:
            k = rkey(rng)
            if rng.random() < 0.3: v = [rvalue(rng) for _ in range(rng.choice([0, 1, 2, 3]))]
            else: v = rvalue(rng)
        m[k] = v
    return m


def rdef(rng, depth=0):
    r = rng.random()
    if r < 0.12: return rvalue(rng)
    if r < 0.27: return [rvalue(rng) for _ in range(rng.choice([0, 1, 2, 3]))]
    if r < 0.72 or depth >= 2: return rmapping(rng)
    return [rdef(rng, depth + 1) for _ in range(rng.choice([1, 2, 2, 3]))]


def rsection(rng):
    names = rng.sample(["sel", "sel2", "filter", "k_1"], rng.choice([1, 1, 2, 3]))
    det = {n: rdef(rng) for n in names}
    r = rng.random()
    if r < 0.6: det["condition"] = " and ".join(names)
    elif r < 0.8: det["condition"] = "1 of them"
    elif r < 0.95: det["condition"] = [names[0], "not " + names[-1]]
    else: det["condition"] = [names[0]]
    return det


ALIAS_CASES = [
    {"sel": {"f|re|i": "a", "f|re|ignorecase": "b"}, "condition": "sel"},
    {"sel": {"f|re|i|neq": "a", "f|re|ignorecase|neq": "b"}, "condition": "sel"},
    {"sel": {"f|re|i": ["a", "c"], "f|re|ignorecase": "b"}, "condition": "sel"},
    {"sel": {"f|re|s|all": ["a", "c"], "f|re|dotall|all": "b"}, "condition": "sel"},
    {"sel": {"f|re|m|all": ["a", "c"], "f|re|m": "b", "f|re|multiline": "d"}, "condition": "sel"},
    {"sel": {"f|re|i|m": "a", "f|re|ignorecase|m": "b", "f|re|i|multiline": "c", "f|re|ignorecase|multiline": "d"}, "condition": "sel"},
    {"sel": {"": None, "f": "b"}, "condition": "sel"},
    {"sel": {"": None}, "condition": "sel"},
    {"sel": {"": "x", "f": "y"}, "condition": "sel"},
    {"sel": {"": ["x", "y"]}, "condition": "sel"},
    {"sel": [["a"], ["b"]], "condition": "sel"},
    {"sel": [["a"], {"f": "x"}, [], "q", None], "condition": "sel"},
    {"sel": [[["a", {"g": 1}]], {"f": []}], "condition": "sel"},
    {"sel": {"f": []}, "condition": "sel"},
    {"sel": [], "condition": "sel"},
    {"sel": {"f|expand": "\\%x\\%"}, "condition": "sel"},
    {"sel": {"f|expand": "%a\\*b%"}, "condition": "sel"},
    {"sel": {"f|contains|expand": "*\\%x\\%*"}, "condition": "sel"},
    {"sel": {"f|re": 5}, "condition": "sel"},
    {"sel": {"f": "x"}, "condition": []},
    {"sel": {"f": "x"}},
    {"condition": "sel"},
    {"sel": {}, "condition": "sel"},
]


MERGE_VALUES = ["b", ["b", "d"], ["b"], [], ["b", "d", "e"]]


def merge_cases():
    """every combination of value shapes for two (three) keys that are written as the same key"""
    out = []
    for al in ("", "|all"):
        for v1 in MERGE_VALUES:
            for v2 in MERGE_VALUES:
                out.append({"sel": {"f|re|s" + al: v1, "f|re|dotall" + al: v2}, "condition": "sel"})
                out.append({"sel": {"g": 1, "f|re|i" + al: v1, "f|re|ignorecase" + al: v2, "f|re|ignorecase|all": "z"}, "condition": "sel"})
    return out


# ---- systematic collisions: every order and shape in which entries that are WRITTEN under the same key (or under
# key and key|all) can meet in the merge loop of SigmaDetection.to_plain.  A slot is (source key variant, |all?);
# all slots of a case are written as K or K|all.  Values are pairwise different, so a lost value changes the query.
def collision_mappings(variants, chain, n_entries, shapes, rng=None, sample=None, extra=None):
    """variants: source key prefixes (field name, or field|alias chain) that end up as the same written field/key;
    chain: modifier ids after the field ('' or e.g. 're'); returns list of mappings (insertion order matters)"""
    slots = [(v, a) for v in variants for a in (False, True)]
    combos = []
    for sub in itertools.combinations(slots, n_entries):
        for order in itertools.permutations(sub):
            for shp in itertools.product(shapes, repeat=n_entries):
                combos.append((order, shp))
    if sample is not None and len(combos) > sample:
        combos = rng.sample(combos, sample)
    out = []
    for order, shp in combos:
        m = {}
        if extra and (rng is None or rng.random() < 0.5): m.update(extra)
        for i, ((v, a), sh) in enumerate(zip(order, shp)):
            key = v + ("|" + chain if chain and "|" not in v else "") + ("|all" if a else "")
            base = "v%d" % i + (".*" if "re" in key.split("|") else "")
            val = {1: base, 2: [base, base + "x"], 11: [base], 0: [], 3: [base, base + "x", base + "y"]}[sh]
            m[key] = val
        out.append(m)
    return out


ALIAS_VARIANTS = ["f|re|i|m", "f|re|ignorecase|m", "f|re|i|multiline", "f|re|ignorecase|multiline"]
ALIAS_NEQ = ["f|re|i|neq", "f|re|ignorecase|neq"]


def det_collisions(tier, rng):
    out = []
    out += collision_mappings(ALIAS_VARIANTS[:2], "", 2, [1, 2, 11, 0, 3])
    out += collision_mappings(ALIAS_VARIANTS[:2], "", 3, [1, 2])
    out += collision_mappings(ALIAS_VARIANTS, "", 3, [1, 2, 11], rng, 200 if tier == "quick" else 2500, extra={"g": "other"})
    out += collision_mappings(ALIAS_VARIANTS, "", 4, [1, 2], rng, 150 if tier == "quick" else 1200)
    out += collision_mappings(ALIAS_NEQ, "", 2, [1, 2], rng, 40)
    return [{"sel": m, "condition": "sel"} for m in out]


def gen_det(tier, rng):
    out = [{"det": d} for d in ALIAS_CASES + merge_cases() + det_collisions(tier, rng)]
    vals = CORE + (HOSTILE if tier != "quick" else HOSTILE[:14])
    for ch in CHAINS:
        for v in vals:
            out.append({"det": {"sel": {"|".join(["f"] + ch): v}, "condition": "sel"}})
        out.append({"det": {"sel": {"|".join(["f"] + ch): ["x", "y*"]}, "condition": "sel"}})
    for s in small_strings(tier):
        out.append({"det": {"sel": {"f": s}, "condition": "sel"}})
        if len(s) <= 2:
            out.append({"det": {"sel": s, "k": [s, "z"], "condition": "sel or k"}})
            out.append({"det": {"sel": {"f|contains": s, "g|re": s}, "condition": "sel"}})
    for _ in range(350 if tier == "quick" else 14000):
        out.append({"det": rsection(rng)})
    return out


def det_to_coq(c, r):
    if "exc" in r: return None
    s = csec(c["det"])
    if s is None: return None
    d1 = cout_sec(r["d1"])
    d2 = cout_sec(r["d2"]) if "d2" in r else d1
    if d1 is None or d2 is None: return None
    a1 = csec(r["a1"]) if isinstance(r.get("a1"), dict) else None
    a1 = f"({a1[0]}, {a1[1]})" if a1 is not None else "([], CNone)"      # not a section any more: differs from every source
    w1 = cout_sec(r["w1"]) if "w1" in r else d1
    d2b = cout_sec(r["d2b"]) if "d2b" in r else d1
    return (f"(({s[0]} : list (str * ddef)), {s[1]}, ({d1} : outcome plainsec), ({d2} : outcome plainsec), "
            f"({cstr(r['q1'])} : str), ({cstr(r.get('q2', ''))} : str), "
            f"(({a1} : plainsec), ({w1} : outcome plainsec), ({d2b} : outcome plainsec)))")


def walk_defs(d):
    """all mappings of a detection definition"""
    if isinstance(d, dict): yield d
    elif isinstance(d, list):
        for x in d: yield from walk_defs(x)


def plain_values(d, in_map_re=False):
    if isinstance(d, dict):
        for k, v in d.items():
            re_ = "re" in k.split("|")[1:]
            for x in (v if isinstance(v, list) else [v]):
                if isinstance(x, str) and not re_: yield x
    elif isinstance(d, list):
        for x in d: yield from plain_values(x)
    elif isinstance(d, str): yield d


def is_plain_single(x):
    if isinstance(x, list): return len(x) == 1 and not isinstance(x[0], (list, dict)) and x[0] is not None
    if isinstance(x, dict): return list(x.keys()) == [""] and (is_plain_single(x[""]) if isinstance(x[""], list) else x[""] is not None)
    return x is not None


def unstable_nesting(d):
    """a nested list with exactly one element that is written as one plain value"""
    if isinstance(d, list):
        if len(d) == 1 and isinstance(d[0], (list, dict)) and is_plain_single(d[0]): return True
        return any(unstable_nesting(x) for x in d)
    return False


def known_det(c, r):
    det = c["det"]
    if any(unstable_nesting(d) for n, d in det.items() if n != "condition"):
        return "D34-one-element-nested-list-unwraps-per-round"
    for n, d in det.items():
        if n == "condition": continue
        for m in walk_defs(d):
            if len(m) > 1 and "" in m and m[""] in (None, [None]):
                return "D31-unbound-null-keyword-dropped"
    for n, d in det.items():
        if n == "condition": continue
        if any(bs_adjacent(s) for s in plain_values(d)):
            return "D10-C06-plain-form-backslash-adjacency"
    return None


def mutate_det(c, rng):
    out = []
    det = c["det"]
    for n, d in det.items():
        if n == "condition": continue
        for m in walk_defs(d):
            for k in list(m.keys()):
                for k2 in (k + "|all", k + "|neq", k.split("|")[0], "|".join(k.split("|")[:1] + ["re", "i"])):
                    m2 = {(k2 if kk == k else kk): vv for kk, vv in m.items()}
                    out.append({"det": json.loads(json.dumps(det).replace(json.dumps(m), json.dumps(m2)))})
                v = m[k]
                for v2 in ([v] if not isinstance(v, list) else v[:1]), [], [v, "z"] if not isinstance(v, list) else v + ["z"], "a\\*b":
                    m2 = dict(m); m2[k] = v2
                    out.append({"det": json.loads(json.dumps(det).replace(json.dumps(m), json.dumps(m2)))})
    out.append({"det": dict(det, sel_extra={"": "kw", "f": "v"})})
    out.append({"det": dict(det, sel_extra=[["a"], ["b"]])})
    return out


def stratum_det(c, r):
    if "exc" in r: return "not-loadable:" + r["exc"]
    if "ok" in r["d1"]: return "written"
    return "to_dict-" + r["d1"].get("err", r["d1"].get("crash", "?"))


# ------------------------------------------------------------------------------------------ hist
TRS = [
    {"type": "field_name_mapping", "mapping": {"f": "c", "g": "c"}},
    {"type": "field_name_mapping", "mapping": {"f": ["a", "b"]}},
    {"type": "field_name_mapping", "mapping": {"f": "g"}},
    {"type": "field_name_prefix_mapping", "mapping": {"f": "p."}},
    {"type": "field_name_suffix", "suffix": ".s"},
    {"type": "field_name_prefix", "prefix": "p."},
    {"type": "drop_detection_item"},
    {"type": "hashes_fields", "valid_hash_algos": ["MD5", "SHA1"], "field_prefix": "File", "drop_algo_prefix": False},
    {"type": "extract_fields", "regex": "(?P<k>[A-Za-z]+)=(?P<v>[a-z0-9]+)", "field_prefix": "h"},
    {"type": "wildcard_placeholders"},
    {"type": "value_placeholders"},
    {"type": "query_expression_placeholders", "expression": "{field} in {id}"},
    {"type": "add_condition", "conditions": {"k": "v", "n": 5}},
    {"type": "change_logsource", "category": "z"},
    {"type": "add_field", "field": "n"},
    {"type": "remove_field", "field": "f"},
    {"type": "set_field", "fields": ["a"]},
    {"type": "replace_string", "regex": "a", "replacement": "b"},
    {"type": "replace_string", "regex": "x", "replacement": "\\\\\\\\"},
    {"type": "replace_string", "regex": "^", "replacement": "\\\\\\\\"},
    {"type": "map_string", "mapping": {"x": "y", "Ab": ["c", "d"], "*x*": "z"}},
    {"type": "set_state", "key": "k", "val": "v"},
    {"type": "regex"},
    {"type": "regex", "method": "plain"},
    {"type": "set_value", "value": "z"},
    {"type": "set_value", "value": 5},
    {"type": "set_value", "value": None},
    {"type": "convert_type", "target_type": "str"},
    {"type": "convert_type", "target_type": "num"},
    {"type": "rule_failure", "message": "m"},
    {"type": "detection_item_failure", "message": "m"},
    {"type": "strict_field_mapping_failure"},
    {"type": "set_custom_attribute", "attribute": "a", "value": "b"},
    {"type": "nest", "items": [{"type": "case", "method": "upper"}]},
    {"type": "case", "method": "lower"},
    {"type": "case", "method": "upper"},
    {"type": "case", "method": "snake_case"},
]
HIST_DETS = [
    {"sel": {"f": "Ab"}, "condition": "sel"},
    {"sel": {"f|base64": "ABC"}, "condition": "sel"},
    {"sel": {"f|wide": "AB", "g|utf16": "x", "h|utf16be": "x"}, "condition": "sel"},
    {"sel": {"f|contains": "Ab", "g|startswith": "x", "h|endswith": "x"}, "condition": "sel"},
    {"sel": {"f|contains": "*x*"}, "condition": "sel"},
    {"sel": {"f|contains|all": ["Ab", "x"], "g": ["x", "y"]}, "condition": "sel"},
    {"sel": {"f|neq": "x", "g|neq": "y"}, "condition": "sel"},
    {"sel": {"f": "x", "g": "y"}, "condition": "sel"},
    {"sel": {"f": ["x", "z"], "g": "y"}, "condition": "sel"},
    {"sel": {"f|all": ["x", "z"], "g|all": "y"}, "condition": "sel"},
    {"sel": {"f|re": "x.*Ab", "g|re|i": "x"}, "condition": "sel"},
    {"sel": {"f|cased": "Ab", "g|cased|contains": "x"}, "condition": "sel"},
    {"sel": {"f|expand": "%x%", "g|expand": "a%v%b"}, "condition": "sel"},
    {"sel": {"f|windash": "-x", "g|base64offset|contains": "x"}, "condition": "sel"},
    {"sel": {"f|cidr": "10.0.0.0/8"}, "condition": "sel"},
    {"sel": {"f|lt": 5, "g|minute": 3, "h|exists": True}, "condition": "sel"},
    {"sel": {"f|fieldref": "g", "g": 5}, "condition": "sel"},
    {"sel": {"f": 5, "g": "7", "h": True, "i": None}, "condition": "sel"},
    {"sel": ["x", "Ab"], "condition": "sel"},
    {"sel": "x", "k": {"|contains": "x"}, "condition": "sel or k"},
    {"sel": [{"f": "x"}, {"g": "Ab", "f|contains": "y"}], "condition": "sel"},
    {"sel": {"Hashes": "MD5=abc", "f": "x"}, "condition": "sel"},
    {"sel": {"Hashes|contains": ["MD5=abc", "SHA1=def"]}, "condition": "sel"},
    # the items hashes_fields creates must be written with the linking and negation of the item they replace (D37, repaired)
    {"sel": {"Hashes|neq": "MD5=abc"}, "condition": "sel"},
    {"sel": {"Hashes|neq": ["MD5=abc", "SHA1=def"], "f": "x"}, "condition": "sel"},
    {"sel": {"Hashes|all": ["MD5=abc", "SHA1=def"]}, "condition": "sel"},
    {"sel": {"Hashes|contains|all": ["MD5=abc", "MD5=cba"]}, "condition": "sel"},
    {"sel": {"Hashes|all|neq": ["MD5=abc", "SHA1=def"]}, "condition": "sel"},
    {"sel": {"f": "x\\a"}, "sel2": {"g|contains": "ax"}, "condition": "sel and not sel2"},
    {"sel": {"f": "xa*"}, "condition": "sel"},
]


MAP3 = {"type": "field_name_mapping", "mapping": {"s1": "t", "s2": "t", "s3": "t"}}
PREFIX3 = {"type": "field_name_prefix_mapping", "mapping": {"s": "t", "t": "t"}}     # s1, s2, s3 -> t1, t2, t3: no collision
HIST_CHAINS = ["", "re", "contains", "cased", "re|i", "startswith", "neq", "contains|neq", "base64", "windash"]


def hist_collisions(tier, rng):
    """key collisions produced by mapping several fields to one: existing |all key scalar / list, colliding plain
    keys, three- and four-way collisions, different modifier chains in one mapping, negated items"""
    ms = []
    fields = ["t", "s1", "s2"]
    q = tier == "quick"
    for ch in (HIST_CHAINS[:2] if q else HIST_CHAINS[:4]):
        ms += collision_mappings(fields, ch, 2, [1, 2, 11, 0], rng, 150 if q else None)
        ms += collision_mappings(fields, ch, 3, [1, 2], rng, (300 if ch == "" else 120) if q else None)
    for ch in HIST_CHAINS[2:]:
        ms += collision_mappings(fields + ["s3"], ch, 3, [1, 2, 11], rng, 25 if q else 700, extra={"u": "other"})
    ms += collision_mappings(fields + ["s3"], "", 4, [1, 2], rng, 100 if q else 1500)
    ms += collision_mappings(fields + ["s3"], "re", 4, [1, 2, 11], rng, 100 if q else 1500, extra={"u|re": "o.*"})
    out = [{"det": {"sel": m, "condition": "sel"}, "tr": MAP3, "vars": {}} for m in ms]
    # different chains in one mapping: two independent collision groups and non-colliding neighbours
    for _ in range(100 if tier == "quick" else 1500):
        c1, c2 = rng.sample(HIST_CHAINS, 2)
        a = rng.choice(collision_mappings(fields, c1, rng.choice([2, 3]), [1, 2], rng, 20))
        b = rng.choice(collision_mappings(["s3", "t"], c2, 2, [1, 2], rng, 20))
        items = list(a.items()) + [(k, v) for k, v in b.items() if k not in a]
        rng.shuffle(items)
        out.append({"det": {"sel": dict(items), "condition": "sel"}, "tr": MAP3, "vars": {}})
    # the seeded shape, spelled out: single-valued |all item + two single-valued items of other fields with the same chain
    for order in itertools.permutations([("t|re|all", "alpha.*"), ("s1|re", "beta.*"), ("s2|re", "gamma.*")]):
        out.append({"det": {"sel": dict(order), "condition": "sel"}, "tr": MAP3, "vars": {}})
    return out


def gen_hist(tier, rng):
    out = []
    for d in HIST_DETS:
        for t in TRS:
            out.append({"det": d, "tr": t, "vars": {"x": ["v1", "v*2"], "v": "w"}})
    for al in ("", "|all", "|contains|all", "|neq"):
        for v1 in MERGE_VALUES:
            for v2 in MERGE_VALUES:
                out.append({"det": {"sel": {"f" + al: v1, "g" + al: v2, "c|all": "q"}, "condition": "sel"}, "tr": TRS[0], "vars": {}})
                out.append({"det": {"sel": {"f" + al: v1, "g" + al: v2}, "condition": "sel"}, "tr": TRS[0], "vars": {}})
    out += hist_collisions(tier, rng)
    n = 100 if tier == "quick" else 5000
    tries = 0
    while n > 0 and tries < 100000:
        tries += 1
        det = loadable_section(rng) if rng.random() < 0.8 else rsection(rng)
        out.append({"det": det, "tr": rng.choice(TRS), "vars": {"x": ["v1", "v*2"], "v": "w"}})
        n -= 1
    return out


def hist_to_coq(c, r):
    if "exc" in r: return None
    ds = []
    for n, d in r["state"]["dets"]:
        t = cstate_det(d)
        if t is None: return None
        ds.append(f"({cstr(n)}, {t})")
    if not all(isinstance(x, str) for x in r["state"]["cond"]): return None
    d1 = cout_sec(r["d1"])
    if d1 is None: return None
    return (f"(({clist(ds)} : list (str * det unit)), ({clist(cstr(x) for x in r['state']['cond'])} : list str), "
            f"({d1} : outcome plainsec), ({cstr(r['qt'])} : str), ({cstr(r.get('qr', ''))} : str))")


def parts_bs_adjacent(parts):
    items = []
    for p in parts:
        if p[0] == "s": items += [("L", ch) for ch in p[1]]
        elif p[0] in ("m", "q"): items.append(("W", p[0]))
        else: items.append(("P", ""))
    return any(a == ("L", "\\") and (b[0] == "W" or b[1] in ("*", "?", "\\")) for a, b in zip(items, items[1:]))


def state_items(d):
    if "subs" in d:
        for x in d["subs"]: yield from state_items(x)
    elif "items" in d:
        yield from d["items"]


def known_hist(c, r):
    if "exc" in r: return None
    k = known_det({"det": c["det"]}, r)
    if k in ("D31-unbound-null-keyword-dropped", "D34-one-element-nested-list-unwraps-per-round"): return k
    for n, d in r["state"]["dets"]:
        for i in state_items(d):
            if i["o"] and "re" not in i["m"] and any("s" in v and parts_bs_adjacent(v["s"]) for v in i["o"]):
                return "D10-C06-plain-form-backslash-adjacency"
    return None


def stratum_hist(c, r):
    t = c["tr"]["type"]
    if "exc" in r: return t + ":raised"
    return t + (":written" if "ok" in r["d1"] else ":refused")


def mutate_hist(c, rng):
    return [dict(c, det=d) for d in HIST_DETS] + [dict(c, tr=t) for t in TRS]


# ------------------------------------------------------------------------------------------ doc
FIDX = {"title": 0, "id": 1, "status": 2, "level": 3, "author": 4, "description": 5, "name": 6, "references": 7, "fields": 8,
        "falsepositives": 9, "scope": 10, "tags": 11, "date": 12, "modified": 13, "taxonomy": 14, "related": 15, "license": 16,
        "logsource": 20, "detection": 21, "correlation": 22, "filter": 23}
KIND = {"rule": 0, "corr": 1, "filter": 2}
UUIDS = ["9a6cafa7-1481-4e64-89a1-1f69ed08618c", "08FBC97D-0A2F-491C-AE21-8FFCFD3174E9", "{12345678-1234-5678-1234-567812345678}"]
DATES = ["2020-07-12", "2020/07/12", "2020/7/2", "3999-12-31", {"__date__": "2021-02-03"}, {"__datetime__": "2021-02-03T04:05:06"}, "1000/1/1"]


def rmeta(rng, kind):
    m = {"title": rng.choice(["Test", "T \u00e9 : # x", "a" * 256, "- lead", "123", ""])}
    def maybe(p): return rng.random() < p
    if maybe(.5): m["id"] = rng.choice(UUIDS)
    if maybe(.4): m["name"] = rng.choice(["test_rule", "n 1", "base"])
    if maybe(.3): m["taxonomy"] = rng.choice(["sigma", "custom"])
    if maybe(.3): m["related"] = [{"id": rng.choice(UUIDS[:2]), "type": rng.choice(["derived", "obsolete", "Similar"])}]
    if maybe(.5): m["status"] = rng.choice(["test", "stable", "Experimental", "deprecated", "unsupported"])
    if maybe(.5): m["description"] = rng.choice(["desc", "multi\nline\n", "x: y", ""])
    if maybe(.3): m["license"] = "MIT"
    if maybe(.4): m["references"] = rng.choice([["ref1", "https://x/y?z=1"], [], ["r"]])
    if maybe(.5): m["tags"] = rng.choice([["attack.execution", "attack.t1059"], [], ["cve.2021.1", "a.b.c"]])
    if maybe(.5): m["author"] = rng.choice(["A B", "x, y", "1"])
    if maybe(.6): m["date"] = rng.choice(DATES)
    if maybe(.4): m["modified"] = rng.choice(DATES)
    if maybe(.4): m["fields"] = rng.choice([["User", "CommandLine"], [], ["f"]])
    if maybe(.4): m["falsepositives"] = rng.choice([["Everything"], [], ["a", "b"]])
    if maybe(.5): m["level"] = rng.choice(["low", "medium", "High", "critical", "informational"])
    if maybe(.3): m["scope"] = rng.choice([["scope1", "scope2"], [], ["s"]])
    for k, v in (("custom1", "v"), ("x-nested", {"a": [1, {"b": None}], "c": 2.5}), ("errors", "e"), ("source", 5),
                 ("zlist", [1, "two", None, True]), ("date2", "2020-01-01"), ("applied_processing_items", ["q"])):
        if maybe(.15): m[k] = v
    items = list(m.items())
    if maybe(.5): rng.shuffle(items)
    return dict(items)


def rlogsource(rng):
    ls = {}
    for k, vs in (("category", ["process_creation", "c"]), ("product", ["windows", "p"]), ("service", ["sysmon"]), ("definition", ["def text"])):
        if rng.random() < .5: ls[k] = rng.choice(vs)
    if not (set(ls) & {"category", "product", "service"}): ls["product"] = "p"
    if rng.random() < .3: ls["custom_ls"] = rng.choice(["x", 5, ["a"], {"k": "v"}])
    if rng.random() < .1: ls["zz"] = "1"
    return ls


BASE_RULES = [
    {"title": "b1", "name": "base", "id": "11111111-1111-1111-1111-111111111111", "logsource": {"product": "p"},
     "detection": {"sel": {"f": "x", "u": "adm*"}, "condition": "sel"}},
    {"title": "b2", "name": "other_rule", "logsource": {"product": "p", "category": "c"},
     "detection": {"sel": {"g|contains": "y"}, "condition": "sel"}},
]
CORR_TYPES = ["event_count", "value_count", "temporal", "temporal_ordered", "value_sum", "value_avg", "value_percentile", "value_median"]


def rcorr(rng):
    t = rng.choice(CORR_TYPES)
    c = {"type": rng.choice([t, t.upper()]) if rng.random() < .9 else t,
         "rules": rng.choice([["base", "other_rule"], ["base"], "base", ["other_rule", "base"], ["11111111-1111-1111-1111-111111111111", "other_rule"]]),
         "timespan": rng.choice(["5m", "1h", "30s", "2d", "1w", "1M", "1y"])}
    if rng.random() < .7: c["group-by"] = rng.choice([["u"], "u", ["u", "host"], []])
    if rng.random() < .4: c["generate"] = rng.choice([True, False])
    if rng.random() < .4: c["aliases"] = rng.choice([{"u": {"base": "user", "other_rule": "usr"}}, {}, {"a": {"base": "x"}, "b": {"other_rule": "y"}}])
    temporal = t.startswith("temporal")
    if temporal:
        r = rng.random()
        if r < .35:
            c["condition"] = rng.choice(["base and other_rule", "base or other_rule", "base and not other_rule", "not (base or other_rule)", "(base)"])
            rr = rng.random()
            if rr < .4: c.pop("rules")
            elif rr < .7: c["rules"] = ["base", "other_rule"]
        elif r < .6: c["condition"] = {rng.choice(["gte", "gt", "eq"]): rng.choice([1, 2, "2"])}
    else:
        cond = {rng.choice(["gte", "gt", "lt", "lte", "eq", "neq"]): rng.choice([1, 10, "3", 2.0])}
        if t != "event_count" or rng.random() < .2: cond["field"] = rng.choice(["f", ["f", "g"]]) if t == "value_count" else "f"
        if t == "value_percentile" or rng.random() < .1: cond["percentile"] = rng.choice([50, 95, "99"])
        c["condition"] = cond
    return c


def rfilter(rng):
    f = {"rules": rng.choice([["base"], "base", "any", "Any", [], ["base", "other_rule"], ["11111111-1111-1111-1111-111111111111"]])}
    names = rng.sample(["flt", "flt_2", "selection"], rng.choice([1, 2]))
    for n in names: f[n] = rmapping(rng, 1) if rng.random() < .5 else {"u": rng.choice(["adm", "a*", ["x", "y"]])}
    f["condition"] = rng.choice(["not " + names[0], " or ".join(names), "not 1 of " + names[0] + "*"])
    items = list(f.items())
    rng.shuffle(items)
    return dict(items)


def loadable_section(rng):
    global SAFE
    SAFE = True
    try:
        return rsection(rng)
    finally:
        SAFE = False


# ---- falsy boundary sweep: 0, 0.0, False, '', [], {}, None through every attribute a serialiser writes conditionally
FALSY = [None, 0, 0.0, False, "", [], {}]
META_KEYS = ["title", "id", "name", "taxonomy", "related", "status", "description", "license", "references", "tags", "author",
             "date", "modified", "fields", "falsepositives", "level", "scope", "custom_x", "errors", "source"]


def corr_base(t):
    c = {"type": t, "rules": ["base", "other_rule"], "timespan": "5m", "group-by": ["u"]}
    if t.startswith("temporal"): pass
    elif t == "event_count": c["condition"] = {"gte": 3}
    elif t == "value_percentile": c["condition"] = {"gte": 3, "field": "f", "percentile": 50}
    else: c["condition"] = {"gte": 3, "field": "f"}
    return c


def falsy_docs(tier, rng):
    out = []
    rule0 = {"title": "T", "logsource": {"product": "p"}, "detection": {"sel": {"f": "x"}, "condition": "sel"}}
    corr0 = {"title": "C", "correlation": corr_base("event_count")}
    filt0 = {"title": "F", "logsource": {"product": "p"}, "filter": {"rules": ["base"], "flt": {"u": "adm"}, "condition": "not flt"}}
    kinds = (("rule", rule0, []), ("corr", corr0, BASE_RULES), ("filter", filt0, BASE_RULES))
    def add(kind, doc, base):
        c = {"kind": kind, "doc": doc}
        if base: c["base"] = base
        out.append(c)
    # metadata: one attribute at a time, then random pairs / triples
    for kind, d0, base in kinds:
        for k in META_KEYS:
            for v in FALSY:
                add(kind, dict(d0, **{k: v}), base)
        for _ in range(40 if tier == "quick" else 600):
            ks = rng.sample(META_KEYS[1:], rng.choice([2, 3, 4]))
            add(kind, dict(d0, **{k: rng.choice(FALSY) for k in ks}), base)
    # log source
    for kind, d0, base in (kinds[0], kinds[2]):
        for k in ("category", "product", "service", "definition", "custom_ls"):
            for v in FALSY:
                add(kind, dict(d0, logsource={"product": "p", k: v} if k != "product" else {"category": "c", k: v}), base)
                add(kind, dict(d0, logsource={k: v}), base)
    # detection values (rule and filter)
    for v in FALSY:
        for d in ({"f": v}, {"f": [v]}, {"f": [v, "x"]}, {"f|contains": v}, {"f|all": [v, v]}, {"": v}, {"f": v, "g": v}):
            add("rule", dict(rule0, detection={"sel": d, "condition": "sel"}), [])
            add("filter", dict(filt0, filter={"rules": ["base"], "flt": d, "condition": "not flt"}), BASE_RULES)
        for d in (v, [v], [v, "x"], [[v], {"f": v}]):
            add("rule", dict(rule0, detection={"sel": d, "condition": "sel"}), [])
    # filter rules
    for v in FALSY + ["any", "ANY", "base", ["base"], [""], ["any"]]:
        add("filter", dict(filt0, filter={"rules": v, "flt": {"u": "adm"}, "condition": "not flt"}), BASE_RULES)
    # correlation section: one item at a time around a valid base of every type, then pairs and random combinations
    cond_items = {"count": [0, "0", 0.0, 1, False, None, ""], "field": ["__absent__", "", [], "f", ["f"], ["f", "g"], None, 0],
                  "percentile": ["__absent__", 0, "0", 0.0, 50, None, False, ""]}
    sect_items = {"group-by": ["__absent__", None, [], "", "u", ["u"], [""], 0, False],
                  "aliases": ["__absent__", None, {}, {"a": {}}, {"u": {"base": "x", "other_rule": "y"}}, {"": {"base": ""}}],
                  "generate": ["__absent__", None, False, True, 0, ""],
                  "timespan": ["0s", "1m", "5M", "10y", "01h", "0d", "", None, "__absent__"],
                  "rules": ["__absent__", None, [], "", "base", ["base"], ["base", "other_rule"]]}
    def build(t, over_sect, over_cond, extended=None):
        c = corr_base(t)
        for k, v in over_sect.items():
            if v == "__absent__": c.pop(k, None)
            else: c[k] = v
        if extended is not None: c["condition"] = extended
        elif over_cond or "condition" in c:
            cond = dict(c.get("condition", {"gte": 2}))
            for k, v in over_cond.items():
                if k == "count":
                    op = next(iter(x for x in cond if x not in ("field", "percentile")), "gte")
                    cond[op] = v
                elif v == "__absent__": cond.pop(k, None)
                else: cond[k] = v
            c["condition"] = cond
        return {"title": "C", "correlation": c}
    for t in CORR_TYPES:
        for k, vs in sect_items.items():
            for v in vs: add("corr", build(t, {k: v}, {}), BASE_RULES)
        for k, vs in cond_items.items():
            for v in vs: add("corr", build(t, {}, {k: v}), BASE_RULES)
        # pairs that interact: aliases x group-by, field x percentile, generate x rules
        for a in sect_items["aliases"]:
            for g in sect_items["group-by"][:7]: add("corr", build(t, {"aliases": a, "group-by": g}, {}), BASE_RULES)
        for f in cond_items["field"][:6]:
            for pc in cond_items["percentile"][:6]: add("corr", build(t, {}, {"field": f, "percentile": pc, "count": rng.choice([0, 3])}), BASE_RULES)
        if t.startswith("temporal"):
            for ext in ("base and other_rule", "base or not other_rule"):
                for k in ("rules", "group-by", "aliases", "generate"):
                    for v in sect_items[k]: add("corr", build(t, {k: v}, {}, extended=ext), BASE_RULES)
            for v in sect_items["rules"]: add("corr", build(t, {"rules": v, "condition": "__absent__"}, {}), BASE_RULES)
    for _ in range(150 if tier == "quick" else 3000):
        t = rng.choice(CORR_TYPES)
        over_s = {k: rng.choice(vs) for k, vs in sect_items.items() if rng.random() < 0.4}
        over_c = {k: rng.choice(vs) for k, vs in cond_items.items() if rng.random() < 0.5}
        d = build(t, over_s, over_c)
        d.update({k: rng.choice(FALSY) for k in rng.sample(META_KEYS[1:], rng.choice([0, 1, 2]))})
        add("corr", d, BASE_RULES)
    return out


BASE_RULES3 = BASE_RULES + [{"title": "b3", "name": "third_rule", "logsource": {"product": "p"},
                             "detection": {"sel": {"h": "z"}, "condition": "sel"}}]


def ordered_rules_docs():
    """fixed cases (every tier): temporal correlation rules with an extended condition AND an explicit rule list in every
    order relative to the order in which the expression mentions the rules; the rule list order is part of the meaning"""
    out = []
    for t in ("temporal", "temporal_ordered"):
        for names, exprs in ((["base", "other_rule", "third_rule"],
                              ["other_rule and base and not third_rule", "base or (third_rule and other_rule)",
                               "not third_rule and other_rule and base"]),
                             (["base", "other_rule"], ["other_rule and base", "base and other_rule", "other_rule or not base"])):
            for perm in itertools.permutations(names):
                for e in exprs:
                    for extra in ({}, {"group-by": ["u"], "generate": True}):
                        c = dict({"type": t, "rules": list(perm), "timespan": "5m", "condition": e}, **extra)
                        out.append({"kind": "corr", "doc": {"title": "ordered rules", "name": "corr_" + t, "correlation": c}, "base": BASE_RULES3})
    return out


def extended_expr_docs(tier, rng):
    """temporal correlation rules whose extended condition is a random expression tree over three rules, in a random spelling:
    every operator below every other one (NOT over AND, NOT over OR, OR below AND, AND below OR), redundant parentheses and
    blanks.  The expression is part of the meaning: the reloaded rule must convert to the same query (seed C06s1: to_dict
    re-spelled the expression from the parse tree and dropped the parentheses of an AND below NOT)."""
    names = ["base", "other_rule", "third_rule"]

    def tree(d):
        r = rng.random()
        if d == 0 or r < 0.25: return rng.choice(names)
        if r < 0.45: return ("not", tree(d - 1))
        return (rng.choice(["and", "or"]), [tree(d - 1) for _ in range(rng.choice([2, 2, 3]))])

    def top(t): return 0 if isinstance(t, str) else 1 if t[0] == "not" else 2 if t[0] == "and" else 3

    def spell(t):
        if isinstance(t, str): return t
        if t[0] == "not":
            a = spell(t[1])
            return "not " + (a if isinstance(t[1], str) else "(" + a + ")")
        lvl = top(t)
        parts = []
        for a in t[1]:
            x = spell(a)
            if top(a) >= lvl or rng.random() < 0.2: x = "(" + rng.choice(["", " "]) + x + rng.choice(["", " "]) + ")"
            parts.append(x)
        return rng.choice([" ", "  "]).join(p for y in parts for p in (t[0], y))[len(t[0]):].strip()

    fixed = ["third_rule and not (base and other_rule)", "not (base and other_rule)", "not (base or other_rule) and third_rule",
             "(base or other_rule) and third_rule", "base or other_rule and third_rule", "(base and other_rule) or third_rule",
             "not (base and (other_rule or third_rule))", "base and (other_rule or not (third_rule and base))"]
    exprs = fixed + [spell(tree(3)) for _ in range(40 if tier == "quick" else 600)]
    out = []
    for i, e in enumerate(exprs):
        t = ("temporal", "temporal_ordered")[i % 2]
        c = {"type": t, "rules": names, "timespan": "5m", "condition": e}
        if i % 3 == 0: c["group-by"] = ["u"]
        out.append({"kind": "corr", "doc": {"title": "extended expression", "name": "corr_x", "correlation": c}, "base": BASE_RULES3})
    return out


def gen_doc(tier, rng):
    fixed = ordered_rules_docs() + extended_expr_docs(tier, rng)
    out = falsy_docs(tier, rng)
    if tier == "quick":
        # the quick tier keeps every correlation-condition boundary case and a seeded half of the rest
        def keep(c):
            cond = c["doc"].get("correlation", {}).get("condition") if isinstance(c["doc"].get("correlation"), dict) else None
            return isinstance(cond, dict) and any(not v and v is not None for v in cond.values())
        always = [c for c in out if keep(c)]
        rest = [c for c in out if not keep(c)]
        out = always + rng.sample(rest, min(len(rest), 700))
    out = fixed + out
    n = 100 if tier == "quick" else 1500
    for _ in range(n):
        m = rmeta(rng, "rule"); m["logsource"] = rlogsource(rng); m["detection"] = loadable_section(rng)
        out.append({"kind": "rule", "doc": m})
    for t in CORR_TYPES * (2 if tier == "quick" else 12):
        pass
    for _ in range(n):
        m = rmeta(rng, "corr"); m["correlation"] = rcorr(rng)
        out.append({"kind": "corr", "doc": m, "base": BASE_RULES})
    for _ in range(n // 2):
        m = rmeta(rng, "filter"); m["logsource"] = rng.choice([{"product": "p"}, {"product": "p", "category": "c"}, rlogsource(rng)])
        m["filter"] = rfilter(rng)
        out.append({"kind": "filter", "doc": m, "base": BASE_RULES})
    return out


def doc_to_coq(c, r):
    if "exc" in r: return None
    kind = KIND[c["kind"]]
    shapes = clist(f"({FIDX[f]}, {s})" for f, s in r["shapes"].items())
    cidx = {}
    for i, k in enumerate(r["custom"]):
        cidx[k] = FIDX[k] if k in ("correlation", "logsource", "detection", "filter") and k not in r["shapes"] else 100 + i
    custom = clist(str(cidx[k]) for k in r["custom"])
    keys = clist(str(FIDX[k] if k in FIDX and k not in cidx else cidx.get(k, 999)) for k in r.get("keys", []))
    j1 = cout_str(r["d1"])
    j2 = cout_str(r["d2"]) if "d2" in r else "(Crash 0)"
    jy = cout_str(r["dy"]) if "dy" in r else "(Crash 0)"
    SUBK = {"category": 0, "product": 1, "service": 2, "definition": 3,
            "type": 10, "rules": 11, "timespan": 12, "group-by": 13, "aliases": 14, "generate": 15, "condition": 16}
    sub = r.get("sub", {"shapes": [], "custom": [], "flag": False, "keys": []})
    sc = {k: 100 + i for i, k in enumerate(sub["custom"])}
    def ln(x): return f"({x} : list N)"          # empty lists need their type when the case is the first of a shard
    subt = (f"({ln(clist(str(x) for x in sub['shapes']))}, {ln(clist(str(sc[k]) for k in sub['custom']))}, {cbool(sub['flag'])}, "
            f"{ln(clist(str(sc.get(k, SUBK.get(k, 999))) for k in sub['keys']))})")
    return (f"({kind}, ({shapes} : list (N * N)), {ln(custom)}, {ln(keys)}, {subt}, ({j1} : outcome str), ({j2} : outcome str), "
            f"({jy} : outcome str), {ln(cstr(r['q1']))}, {ln(cstr(r.get('q2', '')))}, {ln(cstr(r.get('qy', '')))}, "
            f"(({clist(f'({cstr(a)}, {cstr(b)})' for a, b in r.get('pur', []))} : list (str * str)), "
            f"({clist(cout_str(o) for o in r.get('again', []))} : list (outcome str))))")


def doc_strings(x):
    if isinstance(x, dict):
        for v in x.values(): yield from doc_strings(v)
    elif isinstance(x, list):
        for v in x: yield from doc_strings(v)


def known_doc(c, r):
    doc = c["doc"]
    for k in ("date", "modified"):
        if isinstance(doc.get(k), dict) and "__datetime__" in doc[k]:
            return "D32-datetime-date-not-reloadable"
    sec = doc.get("detection") or {k: v for k, v in (doc.get("filter") or {}).items() if k != "rules"}
    if sec:
        return known_det({"det": sec}, r)
    return None


def stratum_doc(c, r):
    if "exc" in r: return c["kind"] + ":not-loadable:" + r["exc"]
    if c["kind"] == "corr": return "corr:" + str(c["doc"]["correlation"]["type"]).lower()
    return c["kind"]


def mutate_doc(c, rng):
    out = []
    for k, v in (("taxonomy", "custom"), ("license", "MIT"), ("scope", ["s"]), ("level", "low"), ("date", "2020/1/2"),
                 ("custom1", {"a": 1}), ("name", "nm"), ("fields", ["f"])):
        out.append(dict(c, doc=dict(c["doc"], **{k: v})))
    if c["kind"] == "corr":
        out.append(dict(c, doc=dict(c["doc"], correlation=dict(c["doc"]["correlation"], generate=True))))
    if "logsource" in c["doc"]:
        out.append(dict(c, doc=dict(c["doc"], logsource=dict(c["doc"]["logsource"], custom_ls="x"))))
    return out


REQ = ["Base.Chars", "Base.Outcome", "Model.SString", "Spec.Items", "Model.Serialize", "Spec.RoundTrip", "Run.C06run"]
PROPERTY = Property(
    pid="C06", props_file="Props/C06.v",
    suites=[
        Suite("det", gen_det, "run_det", REQ, "judge_det", det_to_coq, known=known_det, mutate=mutate_det, stratum=stratum_det),
        Suite("hist", gen_hist, "run_hist", REQ, "judge_hist", hist_to_coq, known=known_hist, mutate=mutate_hist, stratum=stratum_hist),
        Suite("doc", gen_doc, "run_doc", REQ, "judge_doc", doc_to_coq, known=known_doc, mutate=mutate_doc, stratum=stratum_doc, shard=150),
    ],
    rule="det: detections sections - every modifier chain of a fixed list of 45 (all modifier classes, aliases, invalid ones) x core and hostile "
         "values, all strings up to length 2 (quick) / 3 (thorough) over {\\ * ? a % | space B} and longer ones over a reduced alphabet as values "
         "and keywords, hand-made shape cases (alias collisions, empty key, empty lists, nesting), random sections (1-3 detections; plain value, "
         "value list, mapping, list of mappings, nested lists; single and multiple conditions); hist: 25 detections + random sections x 37 "
         "configurations of the built-in transformations (file/http/command placeholders and field_name_transform excluded); doc: random documents "
         "with all metadata fields (dates as yyyy-mm-dd, yyyy/m/d, date and datetime objects), custom attributes, log source attributes; correlation "
         "rules of all 8 types with aliases, group-by, generate, extended conditions; filters; falsy boundary sweep (None, 0, 0.0, False, '', [], {}) through every metadata attribute, log source attribute, detection value, filter rules and every item of the correlation section and condition (count, field, percentile, group-by, aliases, generate, timespan, rules; one at a time for all 8 types, interacting pairs, random combinations). non-trivial: det - list/multi-key/modifier/special "
         "character; hist - every case; doc - more than 3 keys written; distinct by (suite, case hash)",
    assumptions=[
        "what the modifier chain makes of the original values is not modelled for C06 (an arbitrary function in the theorems); in the "
        "correspondence the queries of sigma.backends.test.TextQueryTestBackend for the source and the reloaded dict stand for it",
        "transformations are not modelled: the hist suite reads the object state after the transformation from the implementation "
        "(field, modifier classes, original_value) and checks the model's to_plain on that state; whether a transformation rightly keeps "
        "an item serialisable is decided by the oracle (query equality or Sigma error) on the real code only",
        "metadata (SigmaRuleBase.to_dict, correlation / filter to_dict, log source) is modelled only as the list of written keys; the values "
        "are compared between first and second to_dict (and after a YAML dump/load) as canonical JSON text",
    ],
)
