"""C20 - output is byte-identical across processes, hash seeds and random draws.

Suite `sites`: inputs of the individual places where a set iteration or a random draw can reach
output; every case is evaluated by workers with different PYTHONHASHSEED / random seeds, the Coq judge
compares each run with the model (bit 1) and the runs with each other (bit 2, the property itself).
Extra checks: (a) whole-process check: a corpus of rules + pipelines + filters converted by an identical
driver script in fresh subprocesses for 8/64 hash seeds x 4 random seeds, sha256 compared;
(b) AST scan of sigma/ for set iterations / joins of sets / draws, failing closed on unreviewed sites."""
import ast, hashlib, itertools, json, os, re, subprocess, sys, tempfile
import concurrent.futures as cf
from vlib.core import Property, Suite, Problem, cstr, clist, cbool, VERIF, REPO, IMPL_PY, NPROC

HERE = os.path.dirname(os.path.abspath(__file__))
ID_RE = re.compile(r"_(cond|filt)_[a-z]{10}")
POOL = ["a", "b", "c", "aa", "ab", "B", "z9", "é", "x", "y", "z", "p", "q", "fieldOne", "field_two"]
IDENT = ["a", "b", "c", "aa", "ab", "B", "z9", "x", "y", "Zz", "p", "q", "fieldOne", "field_two", "c_10", "c_9"]

# ------------------------------------------------------------------------------------------
# condition syntax trees: ["id", n] | ["sel", all?, pat] | ["not", c] | ["bin", and?, a, b]
# ------------------------------------------------------------------------------------------
from impl.c20 import cond_str   # noqa: E402  (rendering of condition trees, shared with the implementation side)


def cond_coq(c):
    k = c[0]
    if k == "id": return f"(CId {cstr(c[1])})"
    if k == "sel": return f"(CSel {cbool(c[1])} {cstr(c[2])})"
    if k == "not": return f"(CNot {cond_coq(c[1])})"
    return f"(CBin {cbool(c[1])} {cond_coq(c[2])} {cond_coq(c[3])})"


def cond_ids(c):
    k = c[0]
    if k == "id": return [c[1]]
    if k == "sel": return []
    if k == "not": return cond_ids(c[1])
    return cond_ids(c[2]) + cond_ids(c[3])


def cond_pats(c):
    k = c[0]
    if k == "id": return []
    if k == "sel": return [c[2]]
    if k == "not": return cond_pats(c[1])
    return cond_pats(c[2]) + cond_pats(c[3])


def rand_cond(rng, names, pats, depth):
    r = rng.random()
    if depth <= 0 or r < 0.3:
        if pats and rng.random() < 0.4:
            return ["sel", rng.random() < 0.4, rng.choice(pats)]
        return ["id", rng.choice(names)]
    if r < 0.45:
        return ["not", rand_cond(rng, names, pats, depth - 1)]
    return ["bin", rng.random() < 0.5, rand_cond(rng, names, pats, depth - 1), rand_cond(rng, names, pats, depth - 1)]


# ------------------------------------------------------------------------------------------
# generator of the site suite
# ------------------------------------------------------------------------------------------
def gen_sites(tier, rng):
    big = tier != "quick"
    out = []
    # regular expression flags: exhaustive up to length 4
    for k in range(0, 5):
        for t in itertools.product("ims", repeat=k):
            out.append({"k": "flags", "flags": list(t)})
    # messages built from sets
    for n in range(1, 7):
        for _ in range(6 if not big else 30):
            conds = rng.sample(IDENT, n)
            refs = rng.sample(conds, rng.randint(1, n))
            out.append({"k": "unref", "conds": conds, "refs": refs, "expr": " and ".join(refs)})
    for n in range(0, 7):
        for _ in range(5 if not big else 30):
            out.append({"k": "corr", "keys": [rng.choice(["gte", "lt", "eq"])] + rng.sample(POOL, n)})
    # correlation condition dicts: null-valued operators, several operators, operator + field / percentile,
    # unknown keys, values int() rejects.  Exhaustive: every pair of operators x value kinds; random beyond
    OPS = ["gte", "gt", "lte", "lt", "eq", "neq"]
    vals = [2, None, "x"]
    for a in OPS:
        for va in vals:
            out.append({"k": "corrd", "items": [[a, va]]})
            out.append({"k": "corrd", "items": [[a, va], ["field", "f"]]})
    for a, b in itertools.permutations(OPS, 2):
        for va, vb in ([2, None], [None, 2], [None, None], [2, 3]) + (([2, "x"], ["x", None]) if big else ()):
            out.append({"k": "corrd", "items": [[a, va], [b, vb]]})
    for _ in range(60 if not big else 800):
        ks = rng.sample(OPS, rng.choice([0, 1, 1, 2, 2, 3, 4])) + rng.sample(["field", "percentile", "foo", "Bar", "zz", "count"], rng.randint(0, 3))
        rng.shuffle(ks)
        items = [[kk, ("f" if kk == "field" else 50 if kk == "percentile" else rng.choice([1, 17, None, None, "x", "1.5"]))] for kk in ks]
        out.append({"k": "corrd", "items": items})
    # field mappings + strict check; exhaustive small part: one detection, fields over {a,b,c}, one mapping
    small_t = [["x"], ["x", "y"], ["a"], ["b", "a"]]
    for fs in itertools.chain.from_iterable(itertools.product("abc", repeat=k) for k in (1, 2)):
        for ta in small_t:
            for tb in [None, ["y"], ["x", "z"]]:
                m = {"a": ta}
                if tb: m["b"] = tb
                out.append({"k": "strict", "dets": [list(fs)], "maps": [m], "nested": False, "single_as_str": False})
    for _ in range(90 if not big else 1500):
        pool = rng.sample(POOL, rng.randint(3, 8))
        dets = [[rng.choice(pool) for _ in range(rng.randint(1, 4))] for _ in range(rng.randint(1, 3))]
        maps = []
        for _ in range(rng.randint(0, 3)):
            srcs = rng.sample(pool, rng.randint(1, min(4, len(pool))))
            maps.append({s: rng.sample(pool + ["t1", "t2", "t3"], rng.randint(1, 3)) for s in srcs})
        if rng.random() < 0.5 and maps:
            # make the strict check pass more often: map every field that is still unmapped at the end
            cur = set(f for d in dets for f in d)
            maps.append({f: [f + "_m"] for f in sorted(cur)} if rng.random() < 0.5 else {f: [f + "_m", "t9"] for f in sorted(cur)})
        out.append({"k": "strict", "dets": dets, "maps": maps, "nested": rng.random() < 0.4,
                    "single_as_str": rng.random() < 0.5})
    # tracking operations
    for _ in range(60 if not big else 1000):
        pool = rng.sample(POOL, rng.randint(2, 6))
        ops = []
        for _ in range(rng.randint(1, 7)):
            if rng.random() < 0.8:
                ops.append(["add", rng.choice(pool), rng.sample(pool, rng.randint(1, min(3, len(pool))))])
            else:
                ops.append(["merge", [[rng.choice(pool), rng.sample(pool, rng.randint(1, 2))] for _ in range(rng.randint(1, 3))]])
        out.append({"k": "tracking", "ops": ops})
    # dangling detection names
    for _ in range(40 if not big else 300):
        dets = rng.sample(["d1", "d2", "u1", "u2", "u10", "Zz", "sel", "flt", "éx"], rng.randint(1, 7))
        ascii_dets = [d for d in dets if d.isascii()] or ["d1"]
        dets = dets if "d1" in dets or ascii_dets != ["d1"] else dets + ["d1"]
        refs = rng.sample(ascii_dets, rng.randint(1, len(ascii_dets)))
        out.append({"k": "dangling", "dets": dets, "refs": refs})
    # drawn identifiers
    rule_names = ["d1", "d2", "e1", "sel", "_x", "_cond", "f_1"]
    rule_pats = ["d*", "e*", "*1", "them", "*", "s*l"]
    hostile_pats = ["_*", "_*a", "_c*", "_f*b", "_cond_*", "_filt_*s1", "_*_s1", "_*e"]
    f_names = ["s1", "s2", "t1", "sel"]
    f_pats = ["s*", "them", "*", "*1", "t*"]
    for i in range(130 if not big else 2000):
        names = rng.sample(rule_names, rng.randint(1, 4))
        hostile = rng.random() < 0.2
        pats = rule_pats + (hostile_pats if hostile else [])
        ids = names + (["nosuch"] if rng.random() < 0.05 else [])
        cond = rand_cond(rng, ids, pats if rng.random() < 0.7 else [], rng.randint(0, 3))
        if hostile and not any(p.startswith("_") for p in cond_pats(cond)):
            cond = ["bin", False, cond, ["sel", False, rng.choice(hostile_pats)]]
        filters = []
        for _ in range(rng.choice([0, 0, 1, 1, 2])):
            fn = rng.sample(f_names, rng.randint(1, 3))
            fids = fn + (["nosuch"] if rng.random() < 0.08 else [])
            fc = rand_cond(rng, fids, f_pats if rng.random() < 0.6 else [], rng.randint(0, 2))
            if rng.random() < 0.7:
                fc = ["not", fc]
            filters.append({"dets": fn, "cond": fc})
        adds = [rng.random() < 0.3 for _ in range(rng.choice([0, 1, 1, 2, 3]))]
        c = {"k": "names", "dets": names, "cond": cond, "filters": filters, "adds": adds, "rseed": i}
        if filters:
            c["mode"] = rng.choice(["stream", "one_call", "separate"])
            c["plans"] = draw_plans(rng, len(filters), varlen=rng.random() < 0.15)
        out.append(c)
    # the draw dimension: several filters on one rule (same and different detection names, `them` and wildcard
    # selectors), applied in one call / in separate calls / as documents of the stream, under adversarial draw
    # sequences (see draw_plans)
    fconds = [lambda ns: ["not", ["sel", False, "them"]], lambda ns: ["not", ["sel", True, "them"]],
              lambda ns: ["not", ["sel", False, ns[0][0] + "*"]], lambda ns: ["not", ["sel", False, "*"]],
              lambda ns: ["not", ["bin", True, ["id", ns[0]], ["sel", False, "*" + ns[-1][-1]]]],
              lambda ns: ["not", ["id", ns[0]]]]
    namesets = [["flt"], ["s1", "s2"], ["t1"], ["sel", "s1"], ["flt", "t1", "t2"], ["x9"]]
    combos = []
    for nf in (2, 3):
        for mode in ("separate", "one_call", "stream"):
            for same in (True, False):
                combos.append((nf, mode, same))
    reps = 3 if not big else 40
    for nf, mode, same in combos:
        for _ in range(reps):
            base = rng.choice(namesets)
            fl = []
            for j in range(nf):
                ns = base if same else rng.choice(namesets)
                fl.append({"dets": ns, "cond": rng.choice(fconds)(ns)})
            if not same and len({tuple(f["dets"]) for f in fl}) == 1:
                fl[-1] = {"dets": ["zz1"], "cond": ["not", ["id", "zz1"]]}
            if not any(cond_pats(f["cond"]) for f in fl):
                fl[0]["cond"] = ["not", ["sel", False, "them"]]
            rn = rng.sample(["d1", "d2", "e1", "sel"], rng.randint(1, 3))
            c = {"k": "names", "dets": rn, "cond": rand_cond(rng, rn, ["d*", "them", "*"], rng.randint(0, 2)), "filters": fl,
                 "adds": [rng.random() < 0.3 for _ in range(rng.choice([0, 0, 1, 2]))], "rseed": rng.randint(0, 10 ** 6),
                 "mode": mode, "plans": draw_plans(rng, nf, varlen=rng.random() < 0.25)}
            out.append(c)
    return out


def _draw(rng):
    return "".join(rng.choice("abcdefghijklmnopqrstuvwxyz") for _ in range(10))


def draw_plans(rng, nf, varlen=False):
    """one plan per worker process.  {}: draws of the seeded random module; reseed: random.seed(s) right before every
    apply_filters call (same state before each application); script: results of the next random.choices calls -
    repeated draws, a colliding draw first, (outside the proved domain) draws of different lengths that are prefixes
    of each other.  The output has to be the same under every plan."""
    a, b, c = _draw(rng), _draw(rng), _draw(rng)
    scripts = [[a] * (nf + rng.randint(0, 2)) + [b] * rng.randint(1, 3) + [c, c],          # the same draw again and again
               [a, b, a, a, b, c, b, a],                                                    # earlier prefixes come back
               [a] * 6]                                                                     # then real draws
    if varlen:
        scripts.append(rng.choice([["a", "ab", "a", "abc", "ab"], ["abc", "ab", "a"], [a, a[:5], a[:5] + "z", a]]))
    rng.shuffle(scripts)
    return [{}, {"reseed": rng.randint(0, 10 ** 6)}, {"script": scripts[0]}, {"script": scripts[1]}]


# ------------------------------------------------------------------------------------------
def cdict(pairs):
    return clist(f"({cstr(k)}, {clist(cstr(x) for x in v)})" for k, v in pairs)


def ctree(t):
    k = t[0]
    if k == "none": return "INone"
    if k == "atom": return f"(IAtom {cstr(t[1])})"
    if k == "not": return f"(INot {ctree(t[1])})"
    if k in ("and", "or"): return f"(IOp {cbool(k == 'and')} {clist(ctree(x) for x in t[1])})"
    raise ValueError(k)


class _Share:
    """let-bind repeated large sub-terms of one case (the runs of a case are mostly identical): the Coq term
    denotes the same value, it is only parsed once"""
    def __init__(self):
        self.tab = {}

    def __call__(self, term):
        if len(term) < 24:
            return term
        if term not in self.tab:
            self.tab[term] = f"v{len(self.tab)}"
        return self.tab[term]

    def wrap(self, body):
        return "".join(f"let {v} := {t} in " for t, v in self.tab.items()) + body


def crun(sh, ok, text="", fields=(), fm=(), tf=(), cn=(), fn=(), fd=(), tree=None):
    return ("{| i_ok := %s; i_text := %s; i_fields := %s; i_fm := %s; i_tf := %s; i_cn := %s; i_fn := %s; i_fd := %s; i_tree := %s |}"
            % (cbool(ok), sh(cstr(text)), sh(clist(clist(cstr(f) for f in d) for d in fields)), sh(cdict(fm)), sh(cdict(tf)),
               clist(cstr(x) for x in cn), clist(cstr(x) for x in fn), clist(clist(cstr(x) for x in d) for d in fd),
               sh(ctree(tree)) if tree else "INone"))


def site_coq(c):
    k = c["k"]
    if k == "strict":
        maps = clist(cdict(m.items()) for m in c["maps"])
        dets = clist(clist(cstr(f) for f in d) for d in c["dets"])
        return f"(SStrict {cbool(c['nested'])} {maps} {dets})"
    if k == "unref":
        return f"(SUnref {clist(cstr(x) for x in c['conds'])} {clist(cstr(x) for x in c['refs'])})"
    if k == "corr":
        return f"(SCorr {clist(cstr(x) for x in c['keys'][1:])})"
    if k == "corrd":
        def cv(v):
            return "VNull" if v is None else f"(VInt {cstr(str(v))})" if isinstance(v, int) else f"(VBad {cstr(str(v))})"
        return "(SCorrD %s)" % clist(f"({cstr(kk)}, {cv(v)})" for kk, v in c["items"])
    if k == "flags":
        return "(SFlags %s)" % clist({"i": "FI", "m": "FM", "s": "FS"}[x] for x in c["flags"])
    if k == "names":
        r = "{| r_dets := %s; r_cond := %s |}" % (clist(f"({cstr(n)}, {cstr(n)})" for n in c["dets"]), cond_coq(c["cond"]))
        fs = clist("{| f_dets := %s; f_cond := %s |}" % (clist(f"({cstr(n)}, {cstr('f%d%s' % (i, n))})" for n in f["dets"]),
                                                         cond_coq(f["cond"])) for i, f in enumerate(c["filters"]))
        adds = clist(f"({cstr('a%d' % j)}, {cbool(neg)})" for j, neg in enumerate(c["adds"]))
        return f"(SNames {r} {fs} {adds})"
    if k == "tracking":
        ops = clist(f"(TAdd {cstr(o[1])} {clist(cstr(x) for x in o[2])})" if o[0] == "add" else f"(TMerge {cdict(o[1])})"
                    for o in c["ops"])
        return f"(STracking {ops})"
    if k == "dangling":
        return f"(SDangling {clist(cstr(x) for x in c['dets'])} {clist(cstr(x) for x in c['refs'])})"
    raise ValueError(k)


def sites_to_coq(c, r):
    if "exc" in r:
        return None
    runs = []
    sh = _Share()
    for x in r["runs"]:
        if "err" in x:
            if not x.get("sigma"):
                return None          # a non-Sigma exception: not this property's subject (C07), skipped and counted
            if c["k"] in ("names", "flags", "tracking", "dangling"):
                return None          # another Sigma error than the modelled ones (e.g. empty selector): skipped
            runs.append(crun(sh, False, x["err"]))
        elif "undef" in x:
            runs.append(crun(sh, False, x["undef"], cn=x["cnames"], fn=x["fnames"], fd=x["fdraws"]))
        elif c["k"] == "strict":
            runs.append(crun(sh, True, x["ok"], fields=x["fields"], fm=x["fm"], tf=x["tf"]))
        elif c["k"] == "tracking":
            fm, tf = json.loads(x["ok"])
            runs.append(crun(sh, True, "", fm=fm, tf=tf))
        elif c["k"] == "names":
            if "?" in json.dumps(x["tree"]):
                return None
            runs.append(crun(sh, True, x["ok"], cn=x["cnames"], fn=x["fnames"], fd=x["fdraws"], tree=x["tree"]))
        else:
            runs.append(crun(sh, True, x["ok"]))
    return "(" + sh.wrap(f"({site_coq(c)}, {clist(runs)})") + ")"


def kf_underscore(c):
    return c["k"] == "names" and any(p.startswith("_") for p in cond_pats(c["cond"])) and (c["adds"] or c["filters"])


def kf_filter_undef(c):
    return c["k"] == "names" and any(i not in f["dets"] for f in c["filters"] for i in cond_ids(f["cond"]))


def known_sites(c, r):
    if kf_filter_undef(c) and all("undef" in x and x["undef"].startswith("_filt_") for x in r.get("runs", [])):
        return "C20-F2-error-text-names-drawn-filter-prefix"
    if kf_underscore(c):
        return "C20-F1-underscore-selector-captures-drawn-names"
    return None


def mutate_sites(c, rng):
    out = []
    k = c["k"]
    if k == "unref":
        for x in POOL:
            if x not in c["conds"]:
                out.append(dict(c, conds=c["conds"] + [x]))
    elif k == "corr":
        for x in POOL:
            if x not in c["keys"]:
                out.append(dict(c, keys=c["keys"] + [x]))
    elif k == "corrd":
        for op in ["gte", "lte", "eq"]:
            if op not in [i[0] for i in c["items"]]:
                out.append(dict(c, items=c["items"] + [[op, None]]))
                out.append(dict(c, items=[[op, None]] + c["items"]))
    elif k == "flags":
        for x in "ims":
            out.append(dict(c, flags=c["flags"] + [x]))
    elif k == "strict":
        for x in POOL[:8]:
            out.append(dict(c, dets=c["dets"] + [[x, "zz"]]))
            out.append(dict(c, dets=[d + [x] for d in c["dets"]]))
    elif k == "tracking":
        for x in POOL[:6]:
            for y in POOL[:6]:
                out.append(dict(c, ops=c["ops"] + [["add", x, [y]]]))
    elif k == "dangling":
        for x in ["n1", "n2", "A", "zz"]:
            out.append(dict(c, dets=c["dets"] + [x]))
    elif k == "names":
        out.append(dict(c, adds=c["adds"] + [False]))
        out.append(dict(c, filters=c["filters"] + [{"dets": ["s1", "s2"], "cond": ["not", ["sel", False, "them"]]}]))
        out.append(dict(c, cond=["bin", True, c["cond"], ["sel", False, "them"]]))
    return out


# ------------------------------------------------------------------------------------------
# whole-process check
# ------------------------------------------------------------------------------------------
from props.c20_corpus import build_corpus, entry_known   # noqa: E402


def _run_driver(corpus_path, hseed, rseed, plan="once"):
    env = dict(os.environ)
    env.update({"PYTHONPATH": REPO + os.pathsep + VERIF, "PYTHONHASHSEED": str(hseed), "PYTHONDONTWRITEBYTECODE": "1"})
    p = subprocess.run([IMPL_PY, os.path.join(VERIF, "impl", "c20.py"), "--driver", corpus_path, str(rseed), plan],
                       capture_output=True, text=True, env=env, timeout=1500, cwd=VERIF)
    lines = [json.loads(l[2:]) for l in p.stdout.splitlines() if l.startswith("R ")]
    if p.returncode != 0:
        raise RuntimeError(f"driver failed (hash seed {hseed}, random seed {rseed}): {p.stderr[-1500:]}")
    return (hseed, rseed, plan), lines


def norm_ids(o):
    return json.loads(ID_RE.sub(lambda m: "_" + m.group(1) + "_<ID>", json.dumps(o)))


def process_check(tier, seed):
    import random
    rng = random.Random(f"{seed}:C20:process")
    corpus = build_corpus(tier, rng)
    nh = 8 if tier == "quick" else 64
    hseeds = [0, 1] + rng.sample(range(2, 4294967295), nh - 2)
    rseeds = [0] + rng.sample(range(1, 10 ** 6), 3)
    tmp = tempfile.mkdtemp(prefix="verif_c20_")
    problems, known_hits, nontriv = [], {}, set()
    stats = {"entries": len(corpus), "processes": 0, "hash_seeds": len(hseeds), "random_seeds": len(rseeds),
             "entries_with_error_records": 0, "entries_with_queries": 0, "entries_drawing_identifiers": 0,
             "known_finding_entries": 0}
    try:
        path = os.path.join(tmp, "corpus.json")
        json.dump(corpus, open(path, "w"))
        # every second random seed runs under the adversarial plan "each" (random.seed before each separate
        # apply_filters call of the entries that have `filters_separate`)
        jobs = [(h, r, "each" if k % 2 else "once") for h in hseeds for k, r in enumerate(rseeds)]
        with cf.ThreadPoolExecutor(NPROC) as ex:
            results = list(ex.map(lambda j: _run_driver(path, *j), jobs))
    finally:
        import shutil
        shutil.rmtree(tmp, ignore_errors=True)
    stats["processes"] = len(results)
    ref_key, ref = results[0]
    if len(ref) != len(corpus):
        problems.append(Problem("internal", "process", None, {"why": "driver returned a wrong number of records"}))
    for i, entry in enumerate(corpus):
        base = ref[i]
        if base["out"]["errors"]: stats["entries_with_error_records"] += 1
        if base["out"]["queries"]: stats["entries_with_queries"] += 1
        if base["names"]: stats["entries_drawing_identifiers"] += 1
        if base["names"] or len(base["out"]["queries"]) + len(base["out"]["errors"]) > 0:
            nontriv.add("process:" + entry["id"])
        fid = entry_known(entry)
        diff = None
        for key, lines in results[1:]:
            if lines[i]["sha"] != base["sha"]:
                diff = (key, lines[i])
                break
        # identifiers in queries / finalised output are never acceptable; in error text only for a known class
        leaks = []
        for key, lines in results:
            o = lines[i]["out"]
            if any(ID_RE.search(q) for q in o["queries"]):
                leaks.append((key, "query", [q for q in o["queries"] if ID_RE.search(q)][:2]))
            elif any(ID_RE.search(e[2]) for e in o["errors"]) and fid != "C20-F2-error-text-names-drawn-filter-prefix":
                leaks.append((key, "error", [e for e in o["errors"] if ID_RE.search(e[2])][:2]))
        if leaks:
            key, where, what = leaks[0]
            problems.append(Problem("violation", "process", {"entry": entry, "hash_seed": key[0], "random_seed": key[1]},
                                    {"why": f"drawn identifier in {where}", "output": what}))
            continue
        if diff is None:
            continue
        explained = False
        if fid == "C20-F2-error-text-names-drawn-filter-prefix":
            explained = all(norm_ids(lines[i]["out"]) == norm_ids(base["out"]) for _, lines in results)
        elif fid == "C20-F1-underscore-selector-captures-drawn-names":
            # the draw decides; runs with the same random seed (same draws) must still agree across hash seeds
            byr = {}
            explained = True
            for (h, r, _pl), lines in results:
                if byr.setdefault(r, lines[i]["sha"]) != lines[i]["sha"]:
                    explained = False
        if fid and explained:
            known_hits.setdefault(fid, {"entry": entry["id"]})
            stats["known_finding_entries"] += 1
            continue
        (h2, r2, pl2), other = diff
        problems.append(Problem("violation", "process",
                                {"entry": entry, "seeds_a": {"PYTHONHASHSEED": ref_key[0], "random.seed": ref_key[1], "plan": ref_key[2]},
                                 "seeds_b": {"PYTHONHASHSEED": h2, "random.seed": r2, "plan": pl2}},
                                {"why": "output differs between two processes", "output_a": base["out"], "output_b": other["out"],
                                 "how_to_replay": "write [entry] to a JSON file F, then run twice: PYTHONHASHSEED=<seed> PYTHONPATH=<repo>:<verif> "
                                                  "/venv/bin/python impl/c20.py --driver F <random.seed> <plan>  and compare the printed records"}))
    return {"name": "process", "problems": problems, "evaluations": len(corpus) * len(results),
            "nontrivial_keys": sorted(nontriv), "stats": stats, "known_hits": known_hits,
            "samples": [{"suite": "process", "case": corpus[0]["id"], "impl": ref[0]["sha"]}]}


# ------------------------------------------------------------------------------------------
# AST scan (support for the completeness of the model, not a proof)
# ------------------------------------------------------------------------------------------
from props.c20_scan import scan_repo, REVIEWED, GUARDS, check_guards   # noqa: E402


def scan_check(tier, seed):
    """A site that is not in the reviewed list, or a missing guard, breaks the tie between the model's list of order- and
    draw-sensitive sites and the code; no input is known on which the output differs (the process comparison of this
    check looks for one), so it is reported as a broken correspondence (VIOLATION ... no-failing-input-found).  A reviewed
    site whose expression now stands in another function of the same file (code moved into a helper), or whose
    expression is spelled differently in the same function (renamed local; one reviewed entry answers for one such site), stays
    reviewed."""
    sites = scan_repo(REPO)
    problems = []
    seen = {(s["file"], s["func"], s["kind"], s["expr"]) for s in sites}
    kc = lambda k: "iter" if k in ("for", "comp") else k     # a loop rewritten as a comprehension (or back) is the same site
    vacated, vacated_fn = {}, {}
    for (f, fn, k, e) in REVIEWED:
        if (f, fn, k, e) not in seen:
            vacated.setdefault((f, kc(k), e), []).append(fn)          # same expression, now in another function (moved) or as loop/comprehension
            vacated_fn.setdefault((f, fn, kc(k)), []).append(e)       # same function and kind, other spelling (renamed local)
    moved = []
    for s in sites:
        key = (s["file"], s["func"], s["kind"], s["expr"])
        if key not in REVIEWED:
            if vacated.get((s["file"], kc(s["kind"]), s["expr"])):
                moved.append({"site": list(key), "reviewed_as": vacated[(s["file"], kc(s["kind"]), s["expr"])]})
                continue
            if vacated_fn.get((s["file"], s["func"], kc(s["kind"]))):
                # one reviewed entry answers for one respelled site
                moved.append({"site": list(key), "reviewed_as_expr": vacated_fn[(s["file"], s["func"], kc(s["kind"]))].pop(0)})
                continue
            problems.append(Problem("correspondence", "scan", s,
                                    {"broken": "C20: correspondence scan - a set iteration / join of a set / draw at a site that is not "
                                               "in the reviewed list (props/c20_scan.py REVIEWED); the model's list of order- and "
                                               "draw-sensitive sites is no longer shown to be complete",
                                     "why": "review the site, model it if it reaches output"}))
    for key, st in check_guards(REPO):
        problems.append(Problem("correspondence", "scan", {"file": key[0], "func": key[1], "kind": key[2], "expr": key[3]},
                                {"broken": "C20: correspondence scan - order-sensitive set iteration whose invariant is no longer "
                                           "established: the guarding statement is missing from the function",
                                 "missing_statement": st, "invariant": REVIEWED.get(key)}))
    stale = [k for k in REVIEWED if k not in seen]
    return {"name": "scan", "problems": problems, "evaluations": len(sites), "nontrivial_keys": [],
            "stats": {"sites": len(sites), "reviewed": len(REVIEWED), "stale_review_entries": len(stale), "moved_sites": moved,
                      "by_class": _by_class(sites),
                      "order_sensitive_unless_invariant": [{"site": list(k), "invariant": REVIEWED[k], "guards": GUARDS.get(k, [])}
                                                           for k in REVIEWED if REVIEWED[k].startswith("invariant")]},
            "samples": []}


def _by_class(sites):
    d = {}
    for s in sites:
        cl = REVIEWED.get((s["file"], s["func"], s["kind"], s["expr"]), "UNREVIEWED").split(":")[0]
        d[cl] = d.get(cl, 0) + 1
    return d


REQ = ["Base.Chars", "Model.Determinism", "Spec.DetSpec", "Run.C20run"]
PROPERTY = Property(
    pid="C20", props_file="Props/C20.v",
    suites=[Suite("sites", gen_sites, "run_site", REQ, "judge_sites", sites_to_coq, known=known_sites,
                  mutate=mutate_sites, stratum=lambda c, r: c["k"], shard=150)],
    extra_checks=[process_check, scan_check],
    rule="sites: regex flag lists exhaustive up to length 4; unreferenced-condition / correlation-item sets of 0-6 names; "
         "field mappings (exhaustive over fields {a,b,c} x one mapping, random up to 3 detections x 4 fields x 4 mappings, "
         "nested pipelines, 1:n targets) followed by the strict check; tracking operation sequences; dangling detection names; "
         "rules with random condition trees (identifiers, selectors, hostile patterns starting with '_') x 0-2 filters x 0-3 "
         "add_condition items; every case in 4 worker processes (PYTHONHASHSEED 0-3, distinct random seeds). "
         "process: corpus of rules x pipelines x filters x validators in fresh subprocesses, 8 (quick) / 64 (thorough) "
         "PYTHONHASHSEED values x 4 random seeds. non-trivial = a set with >= 2 elements is iterated or an identifier is drawn; "
         "distinct by (suite, case hash) / corpus entry id",
    assumptions=["a Python set is modelled as a list and every iteration over it as an arbitrary permutation of that list "
                 "(order parameter); CPython's set iteration is some such permutation",
                 "add_condition / filter rewriting is modelled on condition syntax trees, not on the condition text "
                 "(the token regex of filters.py and the condition parser are C11 / C02)",
                 "the AST scan for unmodelled set iterations is heuristic (annotation and constructor based type inference)"],
)
