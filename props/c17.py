import itertools, random, re
from vlib.core import Property, Suite, cstr, clist, cbool, copt

# ---------------------------------------------------------------------------------------------
# building blocks of source values
PH = ["%x%", "%y%", "%z%"]
BLOCKS_S = ["a", "b", "*", "?", "\\", "\\*", "\\%", "%", "%x%", "%y%", "%z%", "&", ":", "\"", "/", " "]
BLOCKS_R = ["a", "b", ".", "*", "?", "\\.", "\\%", "%", "%x%", "%y%", "%z%", "/", "\\\\", "\\d", ":"]
HOSTILE_S = ["%%a%", "%a\\%b%", "\\\\%x%", "%a*b%", "%a", "a%", "%", "%%", "% %", "%x%%y%", "%x%%x%", "%x%*%y%?",
             "%u.v%", "%x y%", "", "C:\\Users\\%x%\\a", "C:\\\\%x%", "%x%%", "%%x%%", "\\%x%", "\\%x\\%", "*%x%*", "%x%%y%%z%",
             "a%x%b%y%c%z%d", "%X%", "%x", "x%", "%\\%", "%\\\\%", "%a?%", "%x%\\", "\\?%y%\\*"]
HOSTILE_R = ["%%a%", "a.*%x%", "%x%b", "%x%*", "^%x%$", "\\%x%", "\\\\%x%", "%x%%y%", "%x%|%y%", "a%x", "", "%x%?", "*%x%", "%x%+",
             "a\\/%x%/b", "\\d%y%\\w", "%a.b%", "%x%%y%%z%"]

MODS_S = [["expand"], ["expand", "contains"], ["contains", "expand"], ["expand", "startswith"], ["expand", "endswith"],
          ["startswith", "expand"], ["endswith", "expand"], [], ["contains"]]
MODS_R = [["re", "expand"], ["re", "expand"], ["re"]]

def it(t, inc=None, exc=None, expr=None, mp=None):
    d = {"t": t, "inc": inc, "exc": exc}
    if t == "qe":
        d["expr"] = expr or "{field} lookup {id}"
        d["map"] = mp or {}
    return d

PIPELINES = [
    [], [it("vl")], [it("wc")], [it("vl", inc=["x"])], [it("vl", exc=["x"])],
    [it("vl", inc=["x"]), it("vl", inc=["y"])], [it("vl", inc=["y"]), it("vl", inc=["x"])],
    [it("vl", exc=["y"]), it("wc")], [it("wc", inc=["x"]), it("vl")], [it("vl", inc=["x", "y"]), it("wc", exc=["x"])],
    [it("qe")], [it("qe", inc=["x"])], [it("qe", expr="lookup({id})", mp={"x": "XL", "y": ""}), it("vl")],
    [it("vl", inc=["y", "z"]), it("qe", expr="{field} in list {id}")], [it("vl", inc=["x"], exc=["y"])],
    [it("vl", inc=[])], [it("wc", exc=[])], [it("wc"), it("vl")], [it("vl"), it("wc")],
    [it("vl", inc=["z"]), it("vl", inc=["y"]), it("vl", inc=["x"])], [it("wc", inc=["y"]), it("vl", exc=["z"]), it("wc")],
    [it("qe", expr="{id}", exc=["x"]), it("wc")],
    [it("qe", inc=[]), it("vl")], [it("qe", inc=[])], [it("qe", exc=[]), it("wc")], [it("qe", inc=["w"]), it("wc")],
]
VALS_OK = ["1", "2", "u*", "p\\%q", "%y%", "a&b", "", "v\\*w", "\\", ":\"", "q?", 1, 1.5, True, -3, "a/b", "x.y"]
VALS_BAD = [None, [1], {"a": 1}]
VARSETS = [
    {"x": ["1", "2"], "y": ["u*", "v"], "z": "w"},
    {"x": ["1"], "y": ["%y%", 2, "a&b"], "z": ["", "p\\%q", "\\"]},
    {"x": "s", "y": 7, "z": 1.5},
    {"x": ["1", "2", "3"], "y": ["v\\*w", True]},
    {"x": [], "y": ["v"]},
    {"x": ["1", None], "y": ["v"], "z": ["k"]},
    {"y": ["v"], "z": {"a": 1}},
    {},
    {"x": ["a/b", "q?"], "y": [":\"", "x.y"], "z": [-3]},
]

def rand_value(rng, regex):
    blocks = BLOCKS_R if regex else BLOCKS_S
    n = rng.randint(0, 6)
    out = []
    for _ in range(n):
        out.append(rng.choice(PH) if rng.random() < 0.35 else rng.choice(blocks))
    return "".join(out)

def rand_names(rng):
    k = rng.choice([None, None, 0, 0, 1, 1, 2, 3])
    if k is None: return None
    return [rng.choice(["x", "y", "z", "w"]) for _ in range(k)]      # duplicates possible

def rand_item(rng):
    t = rng.choice(["vl", "vl", "vl", "wc", "wc", "qe"])
    inc = exc = None
    r = rng.random()
    if r < 0.3: inc = rand_names(rng)
    elif r < 0.6: exc = rand_names(rng)
    elif r < 0.65: inc, exc = rand_names(rng), rand_names(rng)
    if t == "qe":
        return it(t, inc, exc, rng.choice(["{field} lookup {id}", "lookup({id})", "{id}", "in_list({field}, {id})", "static"]),
                  rng.choice([{}, {"x": "XL"}, {"x": "", "y": "YL"}]))
    return it(t, inc, exc)

def rand_vars(rng):
    d = {}
    for n in ["x", "y", "z"]:
        r = rng.random()
        if r < 0.12: continue
        if r < 0.3:
            d[n] = rng.choice(VALS_OK + VALS_BAD[:1])
        else:
            k = rng.choice([0, 1, 1, 2, 2, 3])
            d[n] = [rng.choice(VALS_OK) if rng.random() < 0.93 else rng.choice(VALS_BAD) for _ in range(k)]
    return d

def mk(field, mods, values, items, vars_, all_=False, allpos=None, aslist=False):
    mods = list(mods)
    if all_:
        lo = 1 if mods[:1] == ["re"] else 0
        pos = len(mods) if allpos is None else max(lo, min(allpos, len(mods)))
        mods.insert(pos, "all")
    c = {"field": field, "mods": mods, "values": values, "items": items, "vars": vars_}
    if aslist: c["aslist"] = True
    return c

def gen(tier, rng):
    out = []
    quick = tier == "quick"
    # 1. exhaustive small values x a rotating choice of pipelines / variable tables / modifier chains
    kmax = 2 if quick else 3
    smalls_s = ["".join(t) for k in range(kmax + 1) for t in itertools.product(BLOCKS_S, repeat=k)]
    smalls_r = ["".join(t) for k in range(kmax + 1) for t in itertools.product(BLOCKS_R, repeat=k)]
    if not quick:
        smalls_s = smalls_s[:1 + 16 + 256] + rng.sample(smalls_s[1 + 16 + 256:], 1500)
        smalls_r = smalls_r[:1 + 15 + 225] + rng.sample(smalls_r[1 + 15 + 225:], 1200)
    for i, s in enumerate(smalls_s):
        for j in range(2 if quick else 4):
            out.append(mk(rng.random() < 0.7, rng.choice(MODS_S[:7]), [s], rng.choice(PIPELINES), rng.choice(VARSETS),
                          all_=rng.random() < 0.15, allpos=rng.randint(0, 3)))
    for i, s in enumerate(smalls_r):
        for j in range(2 if quick else 4):
            out.append(mk(rng.random() < 0.7, rng.choice(MODS_R), [s], rng.choice(PIPELINES), rng.choice(VARSETS),
                          all_=rng.random() < 0.15, allpos=rng.randint(0, 3)))
    # 2. hostile values x every fixed pipeline
    for s in HOSTILE_S:
        for p in PIPELINES:
            out.append(mk(True, ["expand"], [s], p, VARSETS[0]))
        for _ in range(6):
            out.append(mk(rng.random() < 0.5, rng.choice(MODS_S), [s], rng.choice(PIPELINES), rng.choice(VARSETS), all_=rng.random() < 0.2))
    for s in HOSTILE_R:
        for p in PIPELINES:
            out.append(mk(True, ["re", "expand"], [s], p, VARSETS[0]))
        for _ in range(4):
            out.append(mk(rng.random() < 0.5, rng.choice(MODS_R), [s], rng.choice(PIPELINES), rng.choice(VARSETS), all_=rng.random() < 0.2))
    # 3. every fixed pipeline x every variable set x a canonical three-placeholder value, all positions
    for p in PIPELINES:
        for vs in VARSETS:
            out.append(mk(True, ["expand"], ["a%x%b%y%c%z%"], p, vs))
            out.append(mk(False, ["expand"], ["%x%", "k%y%"], p, vs))
            out.append(mk(True, ["re", "expand"], ["a%x%.*%y%"], p, vs))
            out.append(mk(True, ["expand", "contains"], ["%x%", "b%z%"], p, vs, all_=True))
    # 3b. query-expression items on placeholder-only values (the only values they accept), all positions
    qe_pipes = [p for p in PIPELINES if any(d["t"] == "qe" for d in p)]
    for mp in [{}, {"x": "XL"}, {"x": "", "y": "YL"}, {"z": "x"}]:
        for expr in ["{field} lookup {id}", "lookup({id})", "{id}", "in_list({field}, {id})", "static"]:
            qe_pipes.append([it("qe", expr=expr, mp=mp)])
            qe_pipes.append([it("vl", inc=["z"]), it("qe", expr=expr, mp=mp, exc=["y"])])
    for p in qe_pipes:
        for values in (["%x%"], ["%y%"], ["%x%", "%z%"], ["%x%", "lit"], ["%x%%y%"], ["*%x%"]):
            for field in (True, False):
                out.append(mk(field, ["expand"], values, p, VARSETS[0]))
        out.append(mk(True, ["expand", "contains"], ["%x%"], p, VARSETS[0]))
        out.append(mk(True, ["re", "expand"], ["%x%"], p, VARSETS[0]))
        out.append(mk(True, ["expand"], ["%x%", "%y%"], p, VARSETS[2], all_=True))
    # 3c. boundary values of include / exclude for all three transformations: absent, empty list (include [] handles
    #     nothing, exclude [] excludes nothing), unknown names only, duplicates, both given (configuration error);
    #     placeholder-only values and values with text around; alone and followed by a value-list / wildcard item
    LISTS = [None, [], ["w"], ["w", "q"], ["x"], ["x", "x"], ["x", "w"], ["y", "x", "y"]]
    combos = [(i, None) for i in LISTS] + [(None, e) for e in LISTS[1:]] + [([], []), (["x"], []), ([], ["x"]), (["x"], ["y"])]
    for kind in ("vl", "wc", "qe"):
        for inc, exc_ in combos:
            first = it(kind, inc=inc, exc=exc_, expr="{field} lookup {id}" if kind == "qe" else None,
                       mp={"x": "XL"} if kind == "qe" and inc == ["x", "x"] else None)
            for follow in ([], [it("vl")], [it("wc")]):
                for values in (["%x%"], ["a%x%b"], ["%x%", "%y%"], ["%y%"]):
                    out.append(mk(True, ["expand"], values, [first] + follow, VARSETS[0]))
                    if quick and rng.random() < 0.5: continue
                    out.append(mk(False, ["expand"], values, [first] + follow, VARSETS[0]))
                    out.append(mk(True, ["re", "expand"], values, [first] + follow, VARSETS[0]))
    # 3d. value LISTS that mix a query-expression placeholder with literals and with other placeholders (1-3 further
    #     values), with and without `all`; every case runs on a backend without and on two backends with in-expressions
    mixes = [["%x%", "v1"], ["v1", "%x%"], ["%x%", "v1", "2"], ["%x%", "%y%"], ["%y%", "%x%"], ["%x%", "a%y%"], ["%x%", "%y%", "lit", "3"],
             ["%x%", "%z%"], ["v1", "2"], ["%x%", "w*", "q?"], ["%x%", "%x%"], ["%x%"]]
    qpipes = [[it("qe", expr="{field} in list({id})")], [it("qe", expr="{field} in list({id})", inc=["x"]), it("vl")],
              [it("vl", inc=["y", "z"]), it("qe", expr="{field} in list({id})")], [it("qe", expr="{field} lookup {id}", exc=["y"]), it("vl", inc=["y"])],
              [it("vl", exc=["x"]), it("qe", expr="lookup({id})", mp={"x": "XL"})], [it("qe", inc=["x"], expr="{id}"), it("wc")],
              [it("wc", inc=["y"]), it("qe", expr="{field} in list({id})")], [it("qe", expr="{field} in list({id})", inc=["x"])]]
    for p in qpipes:
        for values in mixes:
            for vs in (VARSETS[0], VARSETS[2], VARSETS[8]):
                for all_ in (False, True):
                    out.append(mk(True, ["expand"], values, p, vs, all_=all_))
                    if quick and rng.random() < 0.6: continue
                    out.append(mk(False, ["expand"], values, p, vs, all_=all_))
                    out.append(mk(True, ["expand", "contains"], values, p, vs, all_=all_))
    # 4. random
    for _ in range(1500 if quick else 30000):
        regex = rng.random() < 0.3
        nv = rng.choice([1, 1, 1, 2, 2, 3])
        values = [rand_value(rng, regex) if rng.random() < 0.9 else rng.choice(HOSTILE_R if regex else HOSTILE_S) for _ in range(nv)]
        if rng.random() < 0.5:
            items = [rand_item(rng) for _ in range(rng.choice([0, 1, 1, 2, 2, 3]))]
        else:
            items = rng.choice(PIPELINES)
        vs = rand_vars(rng) if rng.random() < 0.6 else rng.choice(VARSETS)
        out.append(mk(rng.random() < 0.6, rng.choice(MODS_R if regex else MODS_S), values, items, vs,
                      all_=rng.random() < 0.2, allpos=rng.randint(0, 3), aslist=rng.random() < 0.2))
    return out

# ---------------------------------------------------------------------------------------------
MODC = {"expand": "MExpand", "contains": "MContains", "startswith": "MStartswith", "endswith": "MEndswith"}
ETAG = {"SigmaValueError": 1, "SigmaPlaceholderError": 2, "SigmaTypeError": 3, "SigmaConditionError": 4,
        "SigmaRegularExpressionError": 5, "SigmaModifierError": 6}

def cnames(l):
    return copt(None if l is None else clist(cstr(n) for n in l))

def citem(d):
    if d["t"] == "vl": k = "KValueList"
    elif d["t"] == "wc": k = "KWildcard"
    else:
        mp = clist(f"({cstr(a)}, {cstr(b)})" for a, b in d["map"].items())
        k = f"(KQuery {cstr(d['expr'])} {mp})"
    return f"{{| t_kind := {k}; t_inc := {cnames(d['inc'])}; t_exc := {cnames(d['exc'])} |}}"

def cvval(v):
    if isinstance(v, (str, int, float)):   # bool is an int
        return f"(VText {cstr(str(v))})"
    return "VBad"

def cvars(vs):
    out = []
    for n, t in vs.items():
        tab = f"(TList {clist(cvval(v) for v in t)})" if isinstance(t, list) else f"(TScalar {cvval(t)})"
        out.append(f"({cstr(n)}, {tab})")
    return clist(out)

def cparts(ps):
    t = []
    for p in ps:
        if p[0] == "s": t.append(f"PStr {cstr(p[1])}")
        elif p[0] == "m": t.append("PMulti")
        elif p[0] == "q": t.append("PSingle")
        elif p[0] == "p": t.append(f"PPh {cstr(p[1])}")
        else: return None
    return clist(t)

def cvalue(v):
    if v[0] == "S": return f"VS {cparts(v[1])}"
    if v[0] == "R": return f"VR {cparts(v[1])}"
    if v[0] == "Q": return f"VQ {cstr(v[1])} {cstr(v[2])}"
    return None

def cout(r):
    if "ok" in r:
        return f"(@Ok str {cstr(r['ok'])})"
    if r.get("sigma"):
        return f"(@SigmaErr str {ETAG.get(r['exc'], 99)})"
    return "(@Crash str 1)"

def to_coq(c, r):
    if "exc" in r and "q" not in r:      # the harness function itself failed
        return None
    mods = [m for m in c["mods"] if m not in ("re", "all")]
    case = (f"{{| c_field := {cbool(c['field'])}; c_re := {cbool('re' in c['mods'])}; c_all := {cbool('all' in c['mods'])}; "
            f"c_mods := {clist(MODC[m] for m in mods)}; c_values := {clist(cstr(s) for s in c['values'])}; "
            f"c_items := {clist(citem(d) for d in c['items'])}; c_vars := {cvars(c['vars'])} |}}")
    if "vals" in r["pipe"]:
        vs = [cvalue(v) for v in r["pipe"]["vals"]]
        pipe = "(@None (list value))" if any(v is None for v in vs) else f"(@Some (list value) {clist(vs)})"
    else:
        pipe = "(@None (list value))"
    return f"({case}, {pipe}, {cout(r['q'])}, {cout(r['qin'])}, {cout(r['stock'])})"

# ---------------------------------------------------------------------------------------------
def known(c, r):
    """C17-F1: under `all`, a value whose placeholders expand to several values: class predicate =
    all-modifier and some source value mentions a placeholder whose variable is a list of >= 2 elements
    while a value-list transformation is configured (complement of flat_ok, over-approximated on the input)."""
    if "all" not in c["mods"] or "expand" not in c["mods"]:
        return None
    if not any(d["t"] == "vl" for d in c["items"]):
        return None
    for s in c["values"]:
        for n, t in c["vars"].items():
            if isinstance(t, list) and len(t) >= 2 and f"%{n}%" in s:
                return "C17-F1-expansion-under-all-is-and-linked"
    return None

def py_oracle(c, r):
    """a SigmaPlaceholderError names a placeholder that is really left in the values (computed from the
    implementation's own outputs)."""
    if "q" not in r: return None
    for k in ("q", "qin", "stock"):
        o = r[k]
        if o.get("exc") == "SigmaPlaceholderError":
            m = re.search(r"unhandled placeholder '(.*)' into query", o.get("msg", ""), flags=re.S)
            left = [p[1] for v in r["pipe"].get("vals", []) if v[0] in "SR" for p in v[1] if p[0] == "p"]
            if not m or m.group(1) not in left:
                return f"SigmaPlaceholderError does not name an unresolved placeholder: {o.get('msg')!r} vs {left}"
        if "exc" in o and not o.get("sigma"):
            return f"non-Sigma exception {o['exc']}: {o.get('msg')}"
    return None

def mutate(c, rng):
    out = []
    for i, s in enumerate(c["values"]):
        for b in ["%x%", "%y%", "a", "*", "\\", "%"]:
            for pos in {0, len(s) // 2, len(s)}:
                v = list(c["values"]); v[i] = s[:pos] + b + s[pos:]
                out.append(dict(c, values=v))
        for pos in range(len(s)):
            v = list(c["values"]); v[i] = s[:pos] + s[pos + 1:]
            out.append(dict(c, values=v))
    for k in range(len(c["items"])):
        out.append(dict(c, items=c["items"][:k] + c["items"][k + 1:]))
    for p in PIPELINES[:10]:
        out.append(dict(c, items=p))
    for vs in VARSETS[:4]:
        out.append(dict(c, vars=vs))
    out.append(dict(c, field=not c["field"]))
    out.append(dict(c, mods=[m for m in c["mods"] if m != "all"]))
    return out

def stratum(c, r):
    pos = "re" if "re" in c["mods"] else ("field" if c["field"] else "kw")
    o = r.get("q", {})
    return pos + ":" + ("ok" if "ok" in o else o.get("exc", "?"))

# ---------------------------------------------------------------------------------------------
# histories: the same pipeline / transformation / backend objects used for several conversions
import copy
H_PIPES = [p for p in PIPELINES if all(not (d["inc"] is not None and d["exc"] is not None) for d in p)]
H_VALUES_S = ["a%x%", "%x%", "%x%b%y%", "k%y%", "%z%*", "%x%%x%", "lit", "\\%x%", "p%x%q%z%"]
H_VALUES_R = ["a%x%", "%x%", "%x%.%y%", "b.*%z%", "lit"]
H_MODS_S = [["expand"], ["expand", "contains"], ["startswith", "expand"], ["expand"]]
H_NEWVALS = [["7"], ["8", "9"], "s", 5, ["w*", "v"], [], None, ["a&b", 1.5], ["n"], [None], ["%y%"]]

def cur_vars(vars_, op):
    """the variable table after the operation (harness glue; mirrors impl/c17.py _Hist.op)"""
    v = copy.deepcopy(vars_)
    k = op[0]
    if k == "set": v[op[1]] = copy.deepcopy(op[2])
    elif k == "del": v.pop(op[1], None)
    elif k == "append":
        if isinstance(v.get(op[1]), list): v[op[1]].append(op[2])
    elif k == "override": v.update(copy.deepcopy(op[1]))
    return v

def rand_op(rng):
    n = rng.choice(["x", "x", "x", "y", "z"])
    k = rng.choice(["none", "set", "set", "set", "del", "del", "append", "override", "override"])
    if k == "none": return ["none"]
    if k == "set": return ["set", n, rng.choice(H_NEWVALS)]
    if k == "del": return ["del", n]
    if k == "append": return ["append", n, rng.choice(["4", 6, "t*"])]
    return ["override", {n: rng.choice(H_NEWVALS[:5] + H_NEWVALS[8:9])} if rng.random() < 0.8 else {"x": ["o1", "o2"], "y": "o3"}]

def rand_step(rng, op=None, pos=None):
    pos = pos or rng.choice(["f", "f", "k", "r"])
    if pos == "r":
        mods, values = ["re", "expand"], rng.sample(H_VALUES_R, rng.choice([1, 1, 2]))
    else:
        mods, values = rng.choice(H_MODS_S), rng.sample(H_VALUES_S, rng.choice([1, 1, 2]))
    return {"op": op or rand_op(rng), "field": pos != "k" if pos != "r" else rng.random() < 0.7, "mods": mods, "values": values}

def gen_history(tier, rng):
    out = []
    quick = tier == "quick"
    base = {"x": ["1", "2"], "y": ["u*", "v"], "z": "w"}
    # 1. structured: convert, change one thing, convert the same value again (and once more after undoing)
    ops = [["set", "x", ["7"]], ["set", "x", ["8", "9", "1"]], ["set", "x", "s"], ["set", "x", []], ["set", "x", [None]],
           ["del", "x"], ["append", "x", "4"], ["override", {"x": ["o1", "o2"]}], ["override", {"y": "o3"}],
           ["set", "y", ["n"]], ["del", "z"], ["none"]]
    for p in H_PIPES:
        for op in ops:
            for pos, mods, val in (("f", ["expand"], "a%x%b%y%"), ("k", ["expand"], "%x%"), ("r", ["re", "expand"], "a%x%.%z%"),
                                   ("f", ["expand", "contains"], "%x%")):
                for mode in ("convert", "apply"):
                    if quick and rng.random() < 0.5: continue
                    st = lambda o, v=val: {"op": o, "field": pos != "k", "mods": mods, "values": [v]}
                    steps = [st(["none"]), st(op), st(["set", "x", ["1", "2"]]), st(["del", "x"]), st(["set", "x", ["z9"]], "q%x%")]
                    out.append({"items": p, "vars": copy.deepcopy(base), "mode": mode, "steps": steps})
    # 2. variable added later; different rules with the same placeholder names; positions mixed
    for p in H_PIPES:
        for mode in ("convert", "apply"):
            steps = [{"op": ["none"], "field": True, "mods": ["expand"], "values": ["a%x%"]},
                     {"op": ["set", "x", ["1"]], "field": True, "mods": ["expand"], "values": ["a%x%"]},
                     {"op": ["set", "x", ["2", "3"]], "field": False, "mods": ["expand"], "values": ["%x%", "k%x%"]},
                     {"op": ["set", "y", ["4"]], "field": True, "mods": ["re", "expand"], "values": ["%x%%y%"]},
                     {"op": ["del", "y"], "field": True, "mods": ["re", "expand"], "values": ["%x%%y%"]}]
            out.append({"items": p, "vars": {}, "mode": mode, "steps": steps})
    # 3. random histories
    for _ in range(250 if quick else 6000):
        items = rng.choice(H_PIPES) if rng.random() < 0.6 else [d for d in (rand_item(rng) for _ in range(rng.choice([1, 1, 2, 3])))
                                                                  if not (d["inc"] is not None and d["exc"] is not None)]
        vs = copy.deepcopy(rng.choice(VARSETS)) if rng.random() < 0.6 else rand_vars(rng)
        steps = [rand_step(rng, op=["none"])] + [rand_step(rng) for _ in range(rng.randint(1, 4))]
        out.append({"items": items, "vars": vs, "mode": rng.choice(["convert", "convert", "apply"]), "steps": steps})
    return out

def history_to_coq(c, r):
    if "steps" not in r: return None
    terms, v = [], c["vars"]
    for st, sr in zip(c["steps"], r["steps"]):
        v = cur_vars(v, st["op"])
        t = to_coq({"field": st["field"], "mods": st["mods"], "values": st["values"], "items": c["items"], "vars": v}, sr)
        if t is None: return None
        terms.append(t)
    return clist(terms)

def history_oracle(c, r):
    for sr in r.get("steps", []):
        m = py_oracle(c, sr)
        if m: return m
    return None

def history_mutate(c, rng):
    out = []
    for k in range(1, len(c["steps"])):
        out.append(dict(c, steps=c["steps"][:k] + c["steps"][k + 1:]))
        out.append(dict(c, steps=c["steps"][:k + 1]))
    out.append(dict(c, mode="apply" if c["mode"] == "convert" else "convert"))
    return out

def history_stratum(c, r):
    return c["mode"] + ":" + "+".join(sorted({st["op"][0] for st in c["steps"]}))

REQ = ["Base.Chars", "Base.Outcome", "Model.SString", "Model.Placeholder", "Spec.Items", "Spec.Expand", "Run.C17run"]
PROPERTY = Property(
    pid="C17", props_file="Props/C17.v",
    suites=[Suite("expand", gen, "run", REQ, "judge_expand", to_coq, known=known, mutate=mutate,
                  py_oracle=py_oracle, stratum=stratum, shard=250),
            Suite("history", gen_history, "run_history", REQ, "judge_history", history_to_coq, mutate=history_mutate,
                  py_oracle=history_oracle, stratum=history_stratum, shard=120)],
    rule="one detection item (field / keyword / regular expression; expand with contains|startswith|endswith in both orders, all) with 1..3 values "
         "built from literal, wildcard, escaped-wildcard, escaped-percent, lone-percent and %x% %y% %z% blocks: exhaustive up to 2 (quick) / 3 (thorough, sampled at 3) "
         "blocks, hostile list, random up to 6 blocks; x 26 fixed pipelines (value-list / wildcard / query-expression items with include / exclude, "
         "both lists, empty lists, unknown names, duplicates - swept for all three transformations on placeholder-only and mixed values, every order) and random pipelines of 0..3 items; x variable tables of 0..3 values (strings incl. wildcards, "
         "escapes, %y% text; int, float, bool; None, list, dict; scalar; missing). Through ProcessingPipeline.from_dict, SigmaRule.from_dict and "
         "Backend.convert_rule of a TextQueryTestBackend subclass with decodable templates and of the stock TextQueryTestBackend. "
         "non-trivial = some source value contains a placeholder; distinct by case hash. Suite history: ONE pipeline object (one instance of every "
         "transformation) and ONE backend used for 2..5 conversions (Backend.convert, or ProcessingPipeline.apply on the same object), between which the "
         "variable table is changed (value reassigned, variable deleted, added, list appended in place, overriding pipeline appended with +), with different "
         "rules using the same placeholder names in field / keyword / regular-expression position; every step is judged by the unchanged single-conversion "
         "model and specification against the table current at that step (conversion has no memory)",
    assumptions=["re.compile acceptance is modelled by Model/PyRegex.v for the generated fragment (no groups, classes, braces) and validated by the correspondence only",
                 "the pattern (?<!\\\\)%([^%]+)% of insert_placeholders is modelled by a one-pass scanner (Model.Placeholder.ph_go) and, independently, by the "
                 "look-ahead reader Spec.Expand.xread; their agreement is checked by the correspondence, not proved",
                 "str.format is modelled for templates whose only replacement fields are {field} and {id}; Python str() of int/float/bool variable values is computed by the harness",
                 "the query text is modelled for the verification backend C17Backend of impl/c17.py (no in-lists, no startswith/endswith/contains operators, escape character escaped); "
                 "the same backend with in-expressions enabled (C17InBackend) is modelled and read back as well; "
                 "for the stock TextQueryTestBackend the outcome class and the number of percent signs and braces in the whole query are checked"],
)
