"""C12: every pipeline transformation equals its documented source-level rewrite.

case = {"rule": rule document (one condition), "expr": its condition as a tree (C01 generator),
        "pipeline": pipeline document as written in YAML ({"vars":…, "transformations":[…]}),
        "added": {index: substituted conditions of add_condition items}}

The implementation side (impl/c12.py) loads the rule, serialises the detection trees, applies the
pipeline, converts rule+pipeline; then the *specification code in this file* (rewrite_case: the hand
rewrite of the document, written independently of sigma) produces the rewritten document, which is spelled
as a rule document and converted by the implementation without a pipeline.  Inside Coq: bit 1 model ==
implementation on trees/condition/fields; bit 2 Spec.Rewrite.rewrite_pipeline == this file's rewrite, and
the two queries have equal truth tables under the verified target parser."""
import itertools, json, random, re, string
from vlib.core import Property, Suite, cstr, clist, cbool, copt, cnat
from props.c01 import gen_value, gen_expr, spell, NAMES, FIELDS, STRS, glob_match
from props.c01_pyread import lex, decode_atom

# =====================================================================================================
# small string model (specification reading of Sigma strings; no sigma import)
def sparse(s):
    """source string -> parts, as the Sigma specification reads it"""
    items, i = [], 0
    while i < len(s):
        c = s[i]
        if c == "\\":
            if i + 1 < len(s) and s[i + 1] in "*?\\":
                items.append(("L", s[i + 1])); i += 2
            else:
                items.append(("L", "\\")); i += 1
        elif c == "*":
            items.append(("M",)); i += 1
        elif c == "?":
            items.append(("S",)); i += 1
        else:
            items.append(("L", c)); i += 1
    return group(items)


def group(items):
    out = []
    for it in items:
        if it[0] == "L":
            if out and out[-1][0] == "s":
                out[-1][1] += it[1]
            else:
                out.append(["s", it[1]])
        elif it[0] == "M":
            out.append(["m"])
        elif it[0] == "S":
            out.append(["q"])
        else:
            out.append(["p", it[1]])
    return out


def merge(parts):
    out = []
    for p in parts:
        if p[0] == "s" and out and out[-1][0] == "s":
            out[-1] = ["s", out[-1][1] + p[1]]
        else:
            out.append(list(p))
    return out


def plain_of(parts):
    """the plain representation the documentation of replace_string / map_string refers to"""
    out = ""
    for p in parts:
        if p[0] == "s":
            out += p[1].replace("*", "\\*").replace("?", "\\?")
        elif p[0] == "m":
            out += "*"
        elif p[0] == "q":
            out += "?"
        else:
            out += "%" + p[1] + "%"
    return out


def insert_ph(parts):
    res = []
    for p in parts:
        if p[0] != "s":
            res.append(p); continue
        part, last = p[1], 0
        for m in re.finditer("(?<!\\\\)%(?P<name>[^%]+)%", part):
            s = part[last:m.start()].replace("\\%", "%")
            if s != "":
                res.append(["s", s])
            res.append(["p", m["name"]]); last = m.end()
        s = part[last:].replace("\\%", "%")
        if s != "":
            res.append(["s", s])
    return res


def add_wild(parts):
    parts = [list(p) for p in parts]
    if not (parts and parts[0] == ["m"]):
        parts = [["m"]] + parts
    if parts[-1] != ["m"]:
        parts = parts + [["m"]]
    return parts


def has_ph(parts):
    return any(p[0] == "p" for p in parts)


# =====================================================================================================
# processing item conditions (scopes)
def pj(v):
    """printed form of a custom attribute / state value"""
    return json.dumps(v, sort_keys=True, default=str)


def rule_cond_match(item, st):
    """match_rule_conditions as documented: logsource (unspecified attributes are ignored), processing_item_applied,
    processing_state (eq), rule_attribute (eq / ne on a custom string attribute); linking all; st: tracked attributes"""
    rc = item.get("rule_conditions", [])
    def one(c):
        t = c["type"]
        if t == "processing_item_applied":
            return c["processing_item_id"] in st["applied"]
        if t == "processing_state":
            return c["key"] in st["state"] and st["state"][c["key"]] == c["val"]
        if t == "rule_attribute":
            if c["attribute"] not in st["custom"]:
                return False
            eq = str(st["custom"][c["attribute"]]) == c["value"]
            return eq if c.get("op", "eq") == "eq" else not eq
        return all(c.get(a) is None or c.get(a) == st["logsource"][a] for a in ("category", "product", "service"))
    rm = all(one(c) for c in rc)
    if item.get("rule_cond_not", False):
        rm = not rm
    return (not rc) or rm


def track(case):
    """The documented effect of the pipeline on the rule-level attributes, item by item: log source
    (change_logsource sets exactly the given attributes), custom attributes, pipeline state, identifiers of the
    applied items, fields list.  -> rm: key -> rule conditions match; ls: key -> log source the item sees;
    final attributes"""
    ls0 = case["rule"].get("logsource", {})
    custom0 = {k: v for k, v in case["rule"].items() if k not in ("title", "logsource", "detection", "fields")}
    st = {"logsource": {a: ls0.get(a) for a in ("category", "product", "service")}, "custom": custom0, "state": {}, "applied": [],
          "fields": list(case["rule"].get("fields", []))}
    rm, ls = {}, {}
    def walk(items, prefix, live):
        for k, it in enumerate(items):
            key = f"{prefix}{k}"
            m = rule_cond_match(it, st)
            rm[key] = m
            ls[key] = dict(st["logsource"])
            if not (live and m):
                if it["type"] == "nest":
                    walk(it["items"], key + ".", False)
                continue
            if it.get("id") and it["id"] not in st["applied"]:
                st["applied"].append(it["id"])
            t = it["type"]
            if t == "nest":
                walk(it["items"], key + ".", True)
            elif t == "change_logsource":
                st["logsource"] = {a: it.get(a) for a in ("category", "product", "service")}
            elif t == "set_custom_attribute":
                st["custom"][it["attribute"]] = it["value"]
            elif t == "set_state":
                st["state"][it["key"]] = it["val"]
            elif t == "add_field":
                st["fields"] += [it["field"]] if isinstance(it["field"], str) else list(it["field"])
            elif t == "remove_field":
                for f in ([it["field"]] if isinstance(it["field"], str) else it["field"]):
                    if f in st["fields"]:
                        st["fields"].remove(f)
            elif t == "set_field":
                st["fields"] = list(it["fields"])
            else:
                p = parse_item(it, key, {}, {}, None)
                afn = make_afn(p[2]) if p[0] == "item" else None
                if afn is not None:
                    out = []
                    for f in st["fields"]:
                        r = afn(f)
                        out += ([r[1]] if r[0] == "one" else list(r[1])) if (r is not None and fm(p[1], f)) else [f]
                    st["fields"] = out
    walk(denull(case["pipeline"])["transformations"], "", True)
    return {"rm": rm, "ls": ls, "final": st}


def rule_matches(case):
    return track(case)["rm"]


def parse_conds(item, rule_match=True):
    fconds = [("inc" if c["type"] == "include_fields" else "exc", list(c["fields"])) for c in item.get("field_name_conditions", [])]
    iconds = []
    for c in item.get("detection_item_conditions", []):
        if c["type"] == "processing_item_applied":
            iconds.append(("applied", c["processing_item_id"]))
        else:
            iconds.append(("null" if c["type"] == "is_null" else "wild", c["cond"] == "all"))
    rconds = []
    for c in item.get("rule_conditions", []):
        t = c["type"]
        if t == "processing_item_applied":
            rconds.append(("applied", c["processing_item_id"]))
        elif t == "processing_state":
            rconds.append(("state", c["key"], pj(c["val"])))
        elif t == "rule_attribute":
            rconds.append(("attr", c.get("op", "eq") == "ne", c["attribute"], pj(c["value"])))
        else:
            rconds.append(("logsource", c.get("category"), c.get("product"), c.get("service")))
    return {"id": item.get("id"), "rule": rule_match, "rconds": rconds, "rneg": bool(item.get("rule_cond_not", False)), "fconds": fconds, "fneg": bool(item.get("field_name_cond_not", False)),
            "iconds": iconds, "ineg": bool(item.get("detection_item_cond_not", False))}


def fc_match(c, f):
    if c[0] == "inc":
        return f is not None and f in c[1]
    return f is None or f not in c[1]


def fm(conds, f):
    return all(fc_match(c, f) for c in conds["fconds"]) != conds["fneg"]


def ic_match(c, item):
    if c[0] == "applied":
        return c[1] in item.get("ap", [])
    pred = (lambda v: v[0] == "null") if c[0] == "null" else (lambda v: v[0] == "str" and any(p[0] in "mq" for p in v[2]))
    return (all if c[1] else any)(pred(v) for v in item["vs"])


def im(conds, item):
    a = all(ic_match(c, item) for c in conds["iconds"]) != conds["ineg"]
    b = all(fc_match(c, item["f"]) or any(v[0] == "ref" and fc_match(c, v[1]) for v in item["vs"]) for c in conds["fconds"]) != conds["fneg"]
    return a and b


# =====================================================================================================
# the transformations as parsed from the pipeline document
def fres(v):
    return ("one", v) if isinstance(v, str) else ("many", list(v))


NULLKEY = "~null~"     # JSON cannot carry YAML's `null:` mapping key; cases use this marker


def denull(pipeline):
    """the pipeline document as YAML would deliver it (null keys restored); returns a deep copy"""
    p = json.loads(json.dumps(pipeline))
    def walk(items):
        for it in items:
            if it["type"] == "nest":
                walk(it["items"])
            elif it["type"] == "field_name_mapping" and NULLKEY in it["mapping"]:
                it["mapping"] = {(None if k == NULLKEY else k): v for k, v in it["mapping"].items()}
    walk(p["transformations"])
    return p


def parse_item(item, added_key, added, drawn, rm=None):
    """-> ("item", conds, tspec) | ("nest", conds, [(conds, tspec)...]); rm: rule_matches of the pipeline"""
    conds = parse_conds(item, True if rm is None else rm[added_key])
    t = item["type"]
    if t == "nest":
        sub = []
        for k, it in enumerate(item["items"]):
            r = parse_item(it, f"{added_key}.{k}", added, drawn, rm)
            sub.append((r[1], r[2]))
        return ("nest", conds, sub)
    if t == "field_name_mapping":
        ts = ("fieldmap", [(None if k == NULLKEY else k, fres(v)) for k, v in item["mapping"].items()])
    elif t == "field_name_prefix_mapping":
        ts = ("prefixmap", [(k, fres(v)) for k, v in item["mapping"].items()])
    elif t == "field_name_prefix":
        ts = ("prefix", item["prefix"])
    elif t == "field_name_suffix":
        ts = ("suffix", item["suffix"])
    elif t == "drop_detection_item":
        ts = ("drop",)
    elif t == "add_condition":
        name = item.get("name") or drawn.get(added_key) or "_cond_not_drawn"   # not drawn: the implementation did not apply the item
        ts = ("addcond", name, added.get(added_key), bool(item.get("negated", False)))
    elif t == "set_value":
        v, ft = item["value"], item.get("force_type")
        if ft == "str":
            a = ["str", False, sparse(str(v))]
        elif ft == "num":
            a = ["num", str(int(v)) if float(v) == int(float(v)) else str(float(v))]
        elif isinstance(v, str):
            a = ["str", False, sparse(v)]
        elif isinstance(v, bool):
            a = ["bool", v]
        elif v is None:
            a = ["null"]
        else:
            a = ["num", str(int(v)) if float(v) == int(v) else str(v)]
        ts = ("setvalue", a)
    elif t == "case":
        ts = ("case", item.get("method", "lower"))
    elif t == "map_string":
        ts = ("mapstring", [(k, [v] if isinstance(v, str) else list(v)) for k, v in item["mapping"].items()])
    elif t == "replace_string":
        ts = ("replace", item["regex"], item["replacement"])
    elif t == "convert_type":
        ts = ("convertstr",) if item.get("target_type") == "str" else ("convertnum",)
    elif t == "change_logsource":
        ts = ("chlog", item.get("category"), item.get("product"), item.get("service"))
    elif t == "set_custom_attribute":
        ts = ("setcustom", item["attribute"], pj(item["value"]))
    elif t == "set_state":
        ts = ("setstate", item["key"], pj(item["val"]))
    elif t in ("add_field", "remove_field"):
        ts = (t.replace("_", ""), [item["field"]] if isinstance(item["field"], str) else list(item["field"]))
    elif t == "set_field":
        ts = ("setfield", list(item["fields"]))
    elif t == "regex":
        ts = ("regex", item.get("method", "ignore_case_brackets"))
    elif t == "query_expression_placeholders":
        ts = ("queryph", item.get("include"), item.get("exclude"), item.get("expression", ""), dict(item.get("mapping", {})))
    elif t == "hashes_fields":
        ts = ("hashes", list(item["valid_hash_algos"]), item.get("field_prefix", ""), bool(item.get("drop_algo_prefix", False)),
              list(item.get("field_to_parse", ["Hashes", "Hash"])))
    elif t == "extract_fields":
        ts = ("extract", item["regex"], item.get("field_prefix") or None, bool(item.get("preserve_unmatched", False)))
    elif t == "wildcard_placeholders":
        ts = ("wildph", item.get("include"), item.get("exclude"))
    elif t == "value_placeholders":
        ts = ("valueph", item.get("include"), item.get("exclude"))
    else:
        ts = ("noop",)
    return ("item", conds, ts)


def make_afn(ts):
    if ts[0] == "fieldmap":
        d = dict(ts[1])
        return lambda f: d.get(f)
    if ts[0] == "prefixmap":
        def afn(f):
            if f is None:
                return None
            for src, dest in ts[1]:
                if f.startswith(src):
                    return ("one", dest[1] + f[len(src):]) if dest[0] == "one" else ("many", [x + f[len(src):] for x in dest[1]])
            return None
        return afn
    if ts[0] == "prefix":
        return lambda f: None if f is None else ("one", ts[1] + f)
    if ts[0] == "suffix":
        return lambda f: None if f is None else ("one", f + ts[1])
    return None


# =====================================================================================================
# THE SPECIFICATION: documented rewrite of one entry (mirrors coq/Spec/Rewrite.v, written by hand)
def E(f, vs, all_, neg, ap=()):
    return ["E", {"f": f, "vs": vs, "all": all_, "neg": neg, "ap": sorted(ap)}]


def mark_doc(id_, d):
    """bookkeeping later items can refer to (processing_item_applied): mark every entry of the fragment"""
    if id_ is None:
        return d
    if d[0] == "E":
        return ["E", dict(d[1], ap=sorted(set(d[1].get("ap", [])) | {id_}))]
    if d[0] == "Neg":
        return ["Neg", mark_doc(id_, d[1])]
    return [d[0], [mark_doc(id_, x) for x in d[1]]]


def rw_rename(conds, afn, it):
    def targets(f):
        if not fm(conds, f):
            return None
        return afn(f)
    vals1 = []
    for v in it["vs"]:
        if v[0] == "ref":
            t = targets(v[1])
            if t is None:
                vals1.append(v)
            else:
                vals1 += [["ref", g, v[2], v[3]] for g in ([t[1]] if t[0] == "one" else t[1])]
        else:
            vals1.append(v)
    t = targets(it["f"])
    if t is None:
        return E(it["f"], vals1, it["all"], it["neg"], it.get("ap", ()))
    if it["f"] is None:       # keyword -> field: substring semantics (f|contains: kw), composed with the modifiers
        def kw(v):
            if v[0] == "str":
                return ["str", v[1], add_wild(v[2])]
            if v[0] == "num":
                return ["str", False, add_wild(sparse(v[1]))]
            return v
        vals2 = [["exp", [kw(x) for x in v[1]]] if v[0] == "exp" else kw(v) for v in vals1]
    else:
        vals2 = vals1
    if t[0] == "one":
        return E(t[1], vals2, it["all"], it["neg"], it.get("ap", ()))
    alt = ["Any", [E(g, vals2, it["all"], False, it.get("ap", ())) for g in t[1]]]
    return ["Neg", alt] if it["neg"] else alt


def replace_parts(regex, repl, parts):
    new = re.sub(regex, repl, plain_of(parts))
    post = re.sub(r"\\(?![*?])", r"\\\\", new)
    out = sparse(post)
    return insert_ph(out) if has_ph(parts) else out


def ph_expand(parts, cb):
    if not parts:
        return [[]]
    rest = ph_expand(parts[1:], cb)
    if parts[0][0] == "p":
        return [r + x for r in cb(parts[0][1]) for x in rest]
    return [[parts[0]] + x for x in rest]


def tv(ts, vars_, f, v):
    """the values that replace value v inside its value list; None: the transformation does not apply to v"""
    k = ts[0]
    if k == "setvalue":
        return [ts[1]]
    if k == "case":
        if v[0] != "str":
            return None
        fn = {"lower": str.lower, "upper": str.upper,
              "snake_case": lambda x: re.sub(r"(?<!^)(?=[A-Z])", "_", x).lower()}[ts[1]]
        return [["str", v[1], [["s", fn(p[1])] if p[0] == "s" else p for p in v[2]]]]
    if k == "mapstring":
        if v[0] != "str":
            return None
        for key, vals in ts[1]:
            if key == plain_of(v[2]):
                return [["str", False, sparse(x)] for x in vals]
        return None
    if k == "replace":
        if v[0] == "str":
            p = plain_of(v[2])
            return [v] if re.sub(ts[1], ts[2], p) == p else [["str", v[1], replace_parts(ts[1], ts[2], v[2])]]
        if v[0] == "num":
            p = plain_of(sparse(v[1]))
            return [v] if re.sub(ts[1], ts[2], p) == p else [["str", False, replace_parts(ts[1], ts[2], sparse(v[1]))]]
        return None
    if k == "convertstr":
        if v[0] == "num":
            return [["str", False, sparse(v[1])]]
        if v[0] == "exp":
            return [["exp", [["str", False, sparse(x[1])] if x[0] == "num" else x for x in v[1]]]]
        return None
    if k == "regex":
        if v[0] != "str":
            return None
        if not v[2]:
            return [v]            # the empty string stays a string
        out = ""
        for p in v[2]:
            if p[0] == "s":
                out += "".join("[%s%s]" % (c.lower(), c.upper()) if (ts[1] == "ignore_case_brackets" and c.isalpha()) else re.escape(c)
                               for c in p[1])
            elif p[0] == "m":
                out += ".*"
            elif p[0] == "q":
                out += "."
            else:
                raise Unspellable("placeholder in regex transformation")
        return [["re", out, "i" if ts[1] == "ignore_case_flag" else ""]]
    if k == "convertnum":
        def num(x):
            if x[0] != "str":
                return x
            n = py_number(plain_of(x[2]))
            if n is None:
                raise Unspellable("not a number")
            return ["num", n]
        if v[0] == "str":
            return [num(v)]
        if v[0] == "exp":
            return [["exp", [num(x) for x in v[1]]]]
        return None
    if k == "queryph":
        if v[0] != "str" or not has_ph(v[2]):
            return None
        if len(v[2]) != 1:
            raise Unspellable("placeholder among other parts")
        n = v[2][0][1]
        inc, exc = ts[1], ts[2]
        handled = (inc is None and exc is None) or (inc is not None and n in inc) or (exc is not None and n not in exc)
        return [["query", ts[3], ts[4].get(n) or n]] if handled else None
    if k in ("wildph", "valueph"):
        if v[0] != "str":
            return None
        inc, exc = ts[1], ts[2]
        names = [p[1] for p in v[2] if p[0] == "p"]
        if not any((inc is None or n in inc) and (exc is None or n not in exc) for n in names):
            return None
        handled = lambda n: (inc is None and exc is None) or (inc is not None and n in inc) or (exc is not None and n not in exc)
        if k == "wildph":
            repl = lambda n: [[["m"]]]
        else:
            def repl(n):
                x = vars_.get(n, [])
                return [sparse(str(y)) for y in (x if isinstance(x, list) else [x])]
        cb = lambda n: repl(n) if handled(n) else [[["p", n]]]
        return [["str", False, merge(x)] for x in ph_expand(v[2], cb)]
    return None


def py_number(s):
    """SigmaNumber(s) for a string s, printed (None: rejected)"""
    import math
    try:
        f = float(s)
        if not math.isfinite(f):
            return None
        i = int(s)
        return str(i) if i == f else str(f)
    except (ValueError, OverflowError):
        return None


def py_capture_number(s):
    """extract_fields: int(s), else float(s), printed as SigmaNumber prints it (None: stays a string)"""
    import math
    try:
        return str(int(s))
    except ValueError:
        pass
    try:
        f = float(s)
    except ValueError:
        return None
    if not math.isfinite(f):
        raise Unspellable("captured text is not a finite number")
    return str(int(f)) if int(f) == f else str(f)


HASH_LENGTHS = {32: "MD5", 40: "SHA1", 64: "SHA256", 128: "SHA512"}


def hash_field_value(ts, plain):
    """documented reading of one hash value: ALGO=hash or ALGO|hash (wildcards around it dropped), or a bare
    hash whose length tells the algorithm; -> (target field, hash) or None when the algorithm is not valid"""
    parts = plain.split("|") if "|" in plain else plain.split("=")
    if len(parts) == 2:
        algo, hv = parts[0].lstrip("*").upper(), parts[1].strip("*?")
    else:
        hv = parts[0].strip("*?")
        algo = HASH_LENGTHS.get(len(hv), "")
    if algo == "" or algo not in ts[1]:
        return None
    return ts[2] + ("" if ts[3] else algo), hv


def rw_hashes(ts, it):
    if it["f"] is None or it["f"] not in ts[4] or not all(v[0] == "str" for v in it["vs"]):
        return ["E", it], False
    pairs = [x for x in (hash_field_value(ts, plain_of(v[2])) for v in it["vs"]) if x is not None]
    fields = list(dict.fromkeys(k for k, _ in pairs))          # in the order of their first occurrence
    es = [E(None if k == "keyword" else k, [["str", False, sparse(h)] for kk, h in pairs if kk == k], it["all"], False)
          for k in fields if k != ""]
    d = ["All" if it["all"] else "Any", es]
    return (["Neg", d] if it["neg"] else d), True


def rw_extract(ts, it):
    if not all(v[0] == "str" for v in it["vs"]):
        return ["E", it], False
    rx = re.compile(ts[1])
    docs = []
    for v in it["vs"]:
        m = rx.match(plain_of(v[2]))
        if not m:
            if ts[3]:
                docs.append(E(it["f"], [v], False, False))
            continue
        es = []
        for g, gv in m.groupdict().items():
            if gv is None or gv == "":
                continue
            if gv.lower() in ("null", "none"):
                val = ["null"]
            elif gv != "0" and gv.startswith("0"):
                val = ["str", False, sparse(gv)]
            else:
                n = py_capture_number(gv)
                val = ["num", n] if n is not None else ["str", False, sparse(gv)]
            es.append(E((ts[2] + "." + g) if ts[2] else g, [val], False, False))
        if es:
            docs.append(["All", es])
    if not docs:
        return ["E", it], False
    d = docs[0] if len(docs) == 1 else ["All" if it["all"] else "Any", docs]
    return (["Neg", d] if it["neg"] else d), True


def rw_entry(conds, ts, vars_, it):
    """-> doc | None (entry removed); a touched entry's fragment is marked with the item's identifier"""
    if not im(conds, it):
        return ["E", it]
    afn = make_afn(ts)
    if afn is not None:
        t = afn(it["f"])
        touched = (t is not None and fm(conds, it["f"])) or any(v[0] == "ref" and fm(conds, v[1]) for v in it["vs"])
        d = rw_rename(conds, afn, it)
        return mark_doc(conds["id"], d) if touched else d
    if ts[0] == "drop":
        return None
    if ts[0] in ("addcond", "noop", "chlog", "setcustom", "setstate", "addfield", "removefield", "setfield"):
        return ["E", it]
    if ts[0] in ("hashes", "extract"):
        d, touched = (rw_hashes if ts[0] == "hashes" else rw_extract)(ts, it)
        return mark_doc(conds["id"], d) if touched else d
    rs = [tv(ts, vars_, it["f"], v) for v in it["vs"]]
    d = E(it["f"], [x for v, r in zip(it["vs"], rs) for x in ([v] if r is None else r)], it["all"], it["neg"], it.get("ap", ()))
    return mark_doc(conds["id"], d) if any(r is not None for r in rs) else d


def subst(r, d):
    if d[0] == "E":
        x = r(d[1])
        return [] if x is None else [x]
    if d[0] in ("All", "Any"):
        return [[d[0], [y for x in d[1] for y in subst(r, x)]]]
    return [["Neg", x] for x in subst(r, d[1])]


def subst_top(r, d):
    if d[0] in ("All", "Any"):
        return [d[0], [y for x in d[1] for y in subst(r, x)]]
    return d


def doc_of(t):
    if "items" in t:
        return ["All" if t["and"] else "Any", [doc_of(x) for x in t["items"]]]
    return ["E", dict(t, ap=sorted(t.get("ap", [])))]


def kw_documented_key(key, target):
    """`'|mods': values` mapped to `target`: substring semantics composed with the modifiers - contains replaces the
    anchors (startswith / endswith / contains), a regular expression keeps its own matching, the other modifiers
    (all, cased, neq, ...) stay; None: no documented source form (e.g. value expansions, D28)"""
    mods = [m for m in key.split("|")[1:] if m]
    if "re" in mods:
        return "|".join([target] + mods)
    if any(m in ("windash", "base64offset", "base64", "expand", "wide", "utf16", "utf16le", "utf16be") for m in mods):
        return None
    return "|".join([target, "contains"] + [m for m in mods if m not in ("startswith", "endswith", "contains")])


def kw_documented(case):
    """For a pipeline that starts with an unscoped field_name_mapping of the null key: every keyword entry of the rule,
    with the documented source-level detection(s) it is rewritten to -> [(detection name, index path, [{key: values}, ...])]"""
    items = denull(case["pipeline"])["transformations"]
    if not items or items[0]["type"] != "field_name_mapping" or None not in items[0]["mapping"]:
        return []
    it = items[0]
    if any(k in it for k in ("rule_conditions", "field_name_conditions", "detection_item_conditions")):
        return []
    tg = it["mapping"][None]
    targets = [tg] if isinstance(tg, str) else list(tg)
    out = []
    def strs(v):
        return all(isinstance(x, str) for x in (v if isinstance(v, list) else [v]))
    for name, d in case["rule"]["detection"].items():
        if name == "condition":
            continue
        if isinstance(d, dict):
            for pos, (k, v) in enumerate(d.items()):
                if k.split("|")[0] == "" and strs(v):
                    keys = [kw_documented_key(k, t) for t in targets]
                    if None not in keys:
                        out.append([name, pos, [{kk: v} for kk in keys]])
        elif isinstance(d, list) and d and all(not isinstance(x, (dict, list)) for x in d) and strs(d):
            out.append([name, 0, [{t + "|contains": d} for t in targets]])
        elif isinstance(d, str):
            out.append([name, 0, [{t + "|contains": d} for t in targets]])
    return out


def rewrite_step(conds, ts, vars_, docs, expr):
    """one processing item on the documents of a rule: (docs, condition expression)"""
    if not conds["rule"]:
        return docs, expr
    if ts[0] == "addcond":
        name, det, neg = ts[1], ts[2], ts[3]
        new = mark_doc(conds["id"], doc_of(det))
        docs = [[n, new] if n == name else [n, d] for n, d in docs] if any(n == name for n, _ in docs) else docs + [[name, new]]
        ref = ["id", name]
        return docs, ["and", [["not", ref] if neg else ref, expr]]
    return [[n, subst_top(lambda it: rw_entry(conds, ts, vars_, it), d)] for n, d in docs], expr


def rewrite_case(case, rin, added, rout):
    docs = [[n, doc_of(t)] for n, t in rin["dets"]]
    expr = case["expr"]
    vars_ = case["pipeline"].get("vars", {})
    drawn = drawn_names(case, rin, rout)
    rm = rule_matches(case)
    for k, item in enumerate(case["pipeline"]["transformations"]):
        p = parse_item(item, str(k), added, drawn, rm)
        if p[0] == "item":
            docs, expr = rewrite_step(p[1], p[2], vars_, docs, expr)
        elif p[1]["rule"]:
            for c, ts in p[2]:
                docs, expr = rewrite_step(c, ts, vars_, docs, expr)
    out = {"docs": docs}
    try:
        e = cond_formula(expr, docs)
    except Unspellable as u:
        out["skip"] = "no reference: " + str(u)
        return out
    try:
        out["rule"], out["atoms"] = spell_rule(e)
    except Unspellable as u:
        out["skip"] = "unspellable: " + str(u)
        return out
    if out["rule"] is not None:
        # the rule-level attributes of the hand-rewritten document are the documented ones
        fin = track(case)["final"]
        out["rule"]["logsource"] = {a: v for a, v in fin["logsource"].items() if v is not None}
        if fin["fields"]:
            out["rule"]["fields"] = list(fin["fields"])
        for k, v in fin["custom"].items():
            out["rule"][k] = v
    return out


def drawn_names(case, rin, rout):
    """add_condition without explicit name draws a random one: read it off the implementation's detections"""
    have = {n for n, _ in rin["dets"]}
    new = [n for n, _ in rout["dets"] if n not in have and n.startswith("_cond_")]
    out = {}
    rm = rule_matches(case)
    def walk(items, prefix):
        for k, it in enumerate(items):
            key = f"{prefix}{k}"
            if not rm[key]:
                continue          # not applied: nothing drawn that shows in the rule
            if it["type"] == "nest":
                walk(it["items"], key + ".")
            elif it["type"] == "add_condition" and not it.get("name") and new:
                out[key] = new.pop(0)
    walk(case["pipeline"]["transformations"], "")
    return out


# =====================================================================================================
# meaning of a document as a formula over atoms (field, value), and its spelling as a rule document
class Unspellable(Exception):
    pass


def value_formula(f, v):
    if v[0] == "exp":
        return ["or", [value_formula(f, x) for x in v[1]]]
    return ["atom", f, v]


def entry_formula(it):
    if not it["vs"]:
        if it["f"] is None:
            raise Unspellable("keyword without values")
        e = ["atom", it["f"], ["null"]]
    elif len(it["vs"]) == 1:
        e = value_formula(it["f"], it["vs"][0])
    else:
        e = ["and" if it["all"] else "or", [value_formula(it["f"], v) for v in it["vs"]]]
    return ["not", e] if it["neg"] else e


def doc_formula(d):
    """None = nothing (absent part)"""
    if d[0] == "E":
        return entry_formula(d[1])
    if d[0] == "Neg":
        x = doc_formula(d[1])
        return None if x is None else ["not", x]
    args = [x for x in (doc_formula(y) for y in d[1]) if x is not None]
    if not args:
        return None
    return args[0] if len(args) == 1 else ["and" if d[0] == "All" else "or", args]


def cond_formula(e, docs):
    names = [n for n, _ in docs]
    dd = dict((n, d) for n, d in docs)
    if e[0] == "id":
        if e[1] not in dd:
            raise Unspellable("undefined detection")
        return doc_formula(dd[e[1]])
    if e[0] == "sel":
        q, pat = e[1], e[2]
        ms = [n for n in names if (pat == "them" or re.fullmatch(pat.replace("*", ".*"), n)) and (pat.startswith("_") or not n.startswith("_"))]
        if not ms:
            raise Unspellable("selector matches nothing")
        args = [x for x in (doc_formula(dd[n]) for n in ms) if x is not None]
        if not args:
            return None
        return args[0] if len(args) == 1 else ["and" if q == "all" else "or", args]
    if e[0] == "not":
        x = cond_formula(e[1], docs)
        return None if x is None else ["not", x]
    args = [x for x in (cond_formula(a, docs) for a in e[1]) if x is not None]
    if not args:
        return None
    return args[0] if len(args) == 1 else [e[0], args]


def spell_parts(parts, esc_pct):
    out = ""
    for p in parts:
        if p[0] == "s":
            for c in p[1]:
                if c in "*?\\":
                    out += "\\" + c
                elif c == "%" and esc_pct:
                    out += "\\%"
                else:
                    out += c
        elif p[0] == "m":
            out += "*"
        elif p[0] == "q":
            out += "?"
        else:
            out += "%" + p[1] + "%"
    return out


def spell_atom(f, v):
    """-> detection definition of the single entry `f: v`"""
    k = v[0]
    mods, val = [], None
    if k == "str":
        ph = has_ph(v[2])
        if ph and any(p[0] == "s" and "\\" in p[1] for p in v[2]):
            raise Unspellable("placeholder next to backslash")
        if ph:
            mods.append("expand")
        if v[1]:
            mods.append("cased")
        if any(p[0] == "s" and p[1] == "" for p in v[2]):
            raise Unspellable("empty string part")
        val = spell_parts(v[2], ph)
    elif k == "num":
        val = int(v[1]) if re.fullmatch(r"-?\d+", v[1]) else float(v[1])
    elif k == "bool":
        val = v[1]
    elif k == "null":
        val = None
    elif k == "re":
        mods = ["re"] + list(v[2])
        val = v[1]
    elif k == "ref":
        mods = ["fieldref"] + (["contains"] if v[2] and v[3] else ["startswith"] if v[2] else ["endswith"] if v[3] else [])
        val = v[1]
    elif k == "other" and v[1] == "cidr":
        mods, val = ["cidr"], v[2]
    elif k == "other" and v[1] == "cmp":
        mods, val = [v[2].lower()], (int(v[3]) if re.fullmatch(r"-?\d+", v[3]) else float(v[3]))
    elif k == "other" and v[1] == "exists":
        mods, val = ["exists"], v[2] == "true"
    elif k == "other" and v[1] == "tspart":
        mods, val = [v[2]], int(v[3])
    elif k == "query":
        # a query expression cannot be written in a rule document: the entry is spelled with a marker value, the
        # atom it converts to stands for the text expression.format(field, id) (see c_query)
        if f is None or not re.fullmatch(r"\w+", f) or re.search(r"[\s()=]", v[1].format(field=f, id=v[2])):
            raise Unspellable("query expression")
        val = "qx-" + "".join("%02x" % b for b in json.dumps([f, v[1], v[2]]).encode())
    else:
        raise Unspellable(k + ":" + str(v[1:2]))
    if f is not None and (f == "" or "|" in f):
        raise Unspellable("field name cannot be written in a document")
    if f is None:
        if not mods and k in ("str", "num"):
            return [val]
        if k in ("str", "re"):
            return {"|" + "|".join(mods): val}
        raise Unspellable("keyword of type " + k)
    return {"|".join([f] + mods): val}


def spell_rule(e):
    """formula over atoms -> (rule document with one single-entry detection per atom, expected atoms)"""
    if e is None:
        return None, {}
    ids, dets, atoms = {}, {}, {}

    def go(x):
        if x[0] == "atom":
            key = json.dumps([x[1], x[2]])
            if key not in ids:
                n = "a%d" % len(ids)
                ids[key] = n
                dets[n] = spell_atom(x[1], x[2])
                if x[2][0] == "query":
                    atoms[n] = [x[1], [["str", False, [["s", dets[n][x[1]]]]]]]
                else:
                    atoms[n] = [x[1], [x[2]]]
            return ids[key]
        if x[0] == "not":
            return "not (" + go(x[1]) + ")"
        return "(" + (" " + x[0] + " ").join(go(a) for a in x[1]) + ")"
    cond = go(e)
    return {"title": "t", "logsource": {"category": "c"}, "detection": dict(dets, condition=cond)}, atoms


# =====================================================================================================
# generator
C_FIELDS = ["f", "g", "h"]
C_MODS = ["", "", "", "", "contains", "startswith", "endswith", "contains|all", "all", "cased", "re", "re|i", "cidr", "exists",
          "windash", "gt", "fieldref", "fieldref|startswith", "neq", "contains|neq", "expand", "expand", "contains|expand", "base64"]
PH_VALUES = ["%x%", "a%x%", "%x%b%y%", "%y%", "p%z%q", "%x%*", "%x%-%z%"]
BS_VALUES = ["\\\\\\\\srv\\\\share", "a\\\\\\\\", "x\\\\", "C:\\\\dir\\\\", "\\\\\\*"]   # adjacent / trailing literal backslashes


def c_gen_item(rng):
    f = rng.choice(C_FIELDS)
    mod = rng.choice(C_MODS)
    key = f + ("|" + mod if mod else "")
    def one():
        if "expand" in mod:
            return rng.choice(PH_VALUES)
        if mod == "base64":
            return rng.choice(["ab", "Abc"])
        if mod in ("", "contains", "startswith", "endswith", "cased", "all", "neq") and rng.random() < 0.12:
            return rng.choice(BS_VALUES)
        v = gen_value(rng, mod)
        return v
    listy = rng.random() < (0.4 if mod in ("", "contains", "startswith", "endswith", "contains|all", "all", "cased", "neq", "expand", "cidr") else 0.0)
    if listy or mod in ("contains|all", "all"):
        vals = []
        for _ in range(rng.randint(2, 3)):
            v = one()
            if v is None or isinstance(v, bool):
                v = rng.choice(STRS)
            vals.append(v)
        return key, vals
    return key, one()


def c_gen_detection(rng):
    r = rng.random()
    if r < 0.6:
        d = {}
        for _ in range(rng.choice([1, 1, 2, 2, 3])):
            k, v = c_gen_item(rng)
            d[k] = v
        if rng.random() < 0.08:
            k, v = gen_kw_entry(rng)      # a keyword entry with modifiers next to fielded items
            d[k] = v
        return d
    if r < 0.8:
        out = []
        for _ in range(rng.randint(2, 3)):
            d = {}
            for _ in range(rng.choice([1, 1, 2])):
                k, v = c_gen_item(rng)
                d[k] = v
            out.append(d)
        return out
    if r < 0.93:
        return [rng.choice(["kw", "k*w", "two words", 5, "x\"y", "*pre", "Kw\\\\*", 42]) for _ in range(rng.randint(1, 3))]
    return rng.choice(["single keyword", 7])


def rule_plain_values(rule):
    """plain source strings occurring in the rule (candidates for map_string keys)"""
    out = []
    def val(v):
        if isinstance(v, str):
            out.append(v)
        elif isinstance(v, list):
            for x in v:
                val(x)
    def det(d):
        if isinstance(d, dict):
            for v in d.values():
                val(v)
        elif isinstance(d, list):
            for x in d:
                det(x) if isinstance(x, (dict, list)) else val(x)
        else:
            val(d)
    for n, d in rule["detection"].items():
        if n != "condition":
            det(d)
    return out or ["a"]


TARGETS = ["a", "b", "x.y", "f", "g", "new-field", "h2"]   # no spaces: the C01 lexer splits unquoted atoms at blanks
REPLACES = [("a", "b"), ("^", "X"), ("\\\\", "/"), ("zzz", "y"), ("b$", "*"), ("(a)", "\\1\\1"), ("\\*", "S"), ("[ab]+", ""),
            ("\\d", "n"), ("a", "\\\\"), ("nomatch_at_all", ""), ("^a$", "%x%"), ("x", "?")]


def gen_scope(rng, allow_rule=True):
    sc = {}
    r = rng.random()
    if r < 0.45:
        return sc
    if r < 0.7:
        sc["field_name_conditions"] = [{"type": rng.choice(["include_fields", "exclude_fields"]),
                                        "fields": rng.sample(C_FIELDS + ["zz"], rng.randint(1, 2))}]
        if rng.random() < 0.25:
            sc["field_name_cond_not"] = True
        if rng.random() < 0.15:
            sc["field_name_conditions"].append({"type": "exclude_fields", "fields": [rng.choice(C_FIELDS)]})
    elif r < 0.85:
        sc["detection_item_conditions"] = [{"type": rng.choice(["is_null", "contains_wildcard"]), "cond": rng.choice(["any", "all"])}]
        if rng.random() < 0.3:
            sc["detection_item_cond_not"] = True
    elif allow_rule:
        sc["rule_conditions"] = [{"type": "logsource", "category": rng.choice(["c", "c", "other"])}]
        if rng.random() < 0.25:
            sc["rule_cond_not"] = True
    return sc


def gen_transformation(rng, rule, identity):
    """one transformation item; identity: the configuration that must not match anything"""
    t = rng.choice(["field_name_mapping", "field_name_mapping", "field_name_mapping", "field_name_prefix_mapping", "field_name_prefix",
                    "field_name_suffix", "drop_detection_item", "add_condition", "add_condition", "set_value", "case", "map_string",
                    "replace_string", "replace_string", "convert_type", "wildcard_placeholders", "value_placeholders", "set_state"])
    it = {"type": t}
    if t == "field_name_mapping":
        if identity:
            it["mapping"] = rng.choice([{}, {"zz": "a"}, {"F": ["a", "b"]}])
        else:
            keys = rng.sample(C_FIELDS + [NULLKEY, NULLKEY + "2"], rng.randint(1, 3))
            keys = [NULLKEY if k.startswith(NULLKEY) else k for k in keys]
            it["mapping"] = {k: (rng.choice(TARGETS) if rng.random() < 0.55 else rng.sample(TARGETS, rng.randint(2, 3))) for k in keys}
    elif t == "field_name_prefix_mapping":
        it["mapping"] = {"zz": "a."} if identity else rng.choice([{"f": "a."}, {"": "p_"}, {"g": ["x", "y"]}, {"f": "", "g": "gg"}, {"h": ["h1.", "h2."], "": "z"}])
    elif t == "field_name_prefix":
        it["prefix"] = "" if identity else rng.choice(["p.", "win-", "x-y"])
    elif t == "field_name_suffix":
        it["suffix"] = "" if identity else rng.choice([".s", "_raw"])
    elif t == "drop_detection_item":
        it.update(gen_scope(rng, allow_rule=False) if not identity else {"field_name_conditions": [{"type": "include_fields", "fields": ["zz"]}]})
        return it
    elif t == "add_condition":
        it["conditions"] = rng.choice([{"g": 1}, {"f|contains": "$category"}, {"x": ["a", "$product-b"], "y|endswith": "c"}, {"src": "${category}$$"},
                                       {"h|neq": "v"}, {"k": None}])
        if any("$" in str(v) for v in it["conditions"].values()):
            it["template"] = rng.random() < 0.7
        if rng.random() < 0.4:
            it["negated"] = True
        if rng.random() < 0.5:
            it["name"] = rng.choice(["extra", "selz", "sel", "_mine", "filter", "x1"])
        if identity:
            it["rule_conditions"] = [{"type": "logsource", "category": "other"}]
            return it
    elif t == "set_value":
        it["value"] = rng.choice(["x", "a*b", 5, True, None, "q\\*", 1.5])
        if rng.random() < 0.2 and isinstance(it["value"], (str, int, float)) and not isinstance(it["value"], bool):
            it["force_type"] = "str" if not isinstance(it["value"], str) else rng.choice(["str"])
        if isinstance(it["value"], int) and not isinstance(it["value"], bool) and rng.random() < 0.3:   # SigmaNumber("1.5") is rejected by the implementation
            it["value"], it["force_type"] = str(it["value"]), "num"
    elif t == "case":
        it["method"] = rng.choice(["lower", "upper", "snake_case"])
    elif t == "map_string":
        if identity:
            it["mapping"] = rng.choice([{}, {"never there": "x"}])
        else:
            keys = rng.sample(rule_plain_values(rule), 1) + rng.sample(STRS, 1)
            it["mapping"] = {k: rng.choice(["x", "m*", ["x", "y"], [], ["p\\*q"]]) for k in keys}
    elif t == "replace_string":
        rx, rp = rng.choice([("nomatch_at_all", "y"), ("zzz", "")]) if identity else rng.choice(REPLACES)
        it["regex"], it["replacement"] = rx, rp
    elif t == "convert_type":
        it["target_type"] = "str"
    elif t == "wildcard_placeholders":
        if identity:
            it["include"] = ["nope"]
        elif rng.random() < 0.5:
            it[rng.choice(["include", "exclude"])] = rng.sample(["x", "y", "z"], rng.randint(1, 2))
    elif t == "value_placeholders":
        if identity:
            it["include"] = ["nope"]
        elif rng.random() < 0.4:
            it[rng.choice(["include", "exclude"])] = rng.sample(["x", "y", "z"], rng.randint(1, 2))
    elif t == "set_state":
        it["key"], it["val"] = "k", "v"
    if not identity or rng.random() < 0.3:
        it.update(gen_scope(rng))
    if identity and rng.random() < 0.25 and t not in ("set_state",):
        # the other identity instance: a scope that matches nothing
        it["rule_conditions"] = [{"type": "logsource", "category": "other"}]
    return it


VARS = {"x": ["v1", "v*2"], "y": "single", "z": [1, "two"]}
LOGSOURCES = [{"category": "c"}, {"category": "c"}, {"category": "c", "product": "windows"}, {"product": "windows", "service": "sysmon"},
              {"category": "process_creation", "product": "windows"}, {"category": "c", "product": "linux", "service": "auditd"},
              {"service": "security"}]
LS_VALUES = {"category": ["c", "process_creation", "other"], "product": ["windows", "linux"], "service": ["sysmon", "auditd", "security"]}


def gen_logsource_cond(rng, ls, hit):
    """logsource rule condition on a random non-empty subset of the attributes; hit: built from the values of ls"""
    attrs = rng.sample(["category", "product", "service"], rng.randint(1, 2))
    c = {"type": "logsource"}
    for a in attrs:
        c[a] = ls.get(a) if (hit and ls.get(a) is not None) else rng.choice(LS_VALUES[a])
    return c


def gen_rule_level(rng, rule):
    """a transformation of rule-level attributes"""
    t = rng.choice(["change_logsource", "change_logsource", "change_logsource", "set_custom_attribute", "set_state", "add_field",
                    "remove_field", "set_field"])
    it = {"type": t}
    if t == "change_logsource":
        for a in rng.sample(["category", "product", "service"], rng.choice([1, 1, 2, 2, 3])):   # every non-empty subset
            it[a] = rng.choice(LS_VALUES[a] + [rule["logsource"].get(a) or LS_VALUES[a][0]])
    elif t == "set_custom_attribute":
        it["attribute"], it["value"] = rng.choice(["myattr", "env"]), rng.choice(["prod", "test", "x y"])
    elif t == "set_state":
        it["key"], it["val"] = rng.choice(["k", "stage"]), rng.choice(["v", "w", 1, 2])
    elif t == "add_field":
        it["field"] = rng.choice(["nf", ["nf", "f"], "g"])
    elif t == "remove_field":
        it["field"] = rng.choice(["f", ["g", "zz"], "other"])
    else:
        it["fields"] = rng.sample(C_FIELDS + ["nf"], rng.randint(0, 2))
    return it


def gen_attr_reader(rng, rule, first):
    """a follower whose rule conditions / template read what the first item set"""
    ls = rule["logsource"]
    kind = rng.choice(["cond", "cond", "template"])
    if kind == "template":
        it = {"type": "add_condition", "template": True,
              "conditions": rng.choice([{"source": "$category/$service"}, {"Image|startswith": "$product-"}, {"x": ["$service", "lit"], "y": "${category}"}])}
        if rng.random() < 0.3:
            it["negated"] = True
        return it
    t = first["type"]
    if t == "change_logsource" or rng.random() < 0.3:
        # conditions on the values the rule had before are the ones that tell "cleared" from "inherited"
        c = gen_logsource_cond(rng, ls if rng.random() < 0.6 else {a: first.get(a) for a in ("category", "product", "service")}, True)
    elif t == "set_state":
        c = {"type": "processing_state", "key": first["key"], "val": rng.choice([first["val"], "v", 1])}
    elif t == "set_custom_attribute":
        c = {"type": "rule_attribute", "attribute": first["attribute"], "value": rng.choice([first["value"], "prod"]), "op": rng.choice(["eq", "eq", "ne"])}
    else:
        c = {"type": "processing_item_applied", "processing_item_id": "R"}
    dep = {"rule_conditions": [c]}
    if rng.random() < 0.35:
        dep["rule_cond_not"] = True
    if rng.random() < 0.2:
        dep["rule_conditions"].append(gen_logsource_cond(rng, ls, rng.random() < 0.5))
    it = rng.choice([{"type": "field_name_prefix", "prefix": "win."}, {"type": "drop_detection_item"}, {"type": "field_name_suffix", "suffix": "_x"},
                     {"type": "set_value", "value": "Z"}, {"type": "case", "method": "upper"},
                     {"type": "add_condition", "conditions": {"src": "$category/$service"}, "template": True}])
    it.update(dep)
    return it


def gen_attr_chain(rng, rule):
    first = gen_rule_level(rng, rule)
    first["id"] = "R"
    if rng.random() < 0.2:
        first["rule_conditions"] = [gen_logsource_cond(rng, rule["logsource"], rng.random() < 0.7)]
    items = [first]
    if rng.random() < 0.85:
        items.append(gen_attr_reader(rng, rule, first))
    if rng.random() < 0.25:
        items.append(gen_attr_reader(rng, rule, first))
    if rng.random() < 0.15:
        items.insert(1, gen_rule_level(rng, rule))
    if rng.random() < 0.2 and first["type"] in ("set_custom_attribute", "set_state"):
        # the same key set again (the later value counts)
        again = dict(first, id="R2")
        again["value" if first["type"] == "set_custom_attribute" else "val"] = rng.choice(["again", "prod", "v"])
        items.insert(1, again)
    if rng.random() < 0.15:
        items = [{"type": "nest", "items": items}]
    return items


def template_subst(conds, ls):
    def s(x):
        return string.Template(x).safe_substitute(category=ls["category"], product=ls["product"], service=ls["service"]) if isinstance(x, str) else x
    return {k: ([s(i) for i in v] if isinstance(v, list) else s(v)) for k, v in conds.items()}


def assign_ids(items, prefix="i"):
    """every processing item gets an explicit identifier (without one the implementation derives a hash
    of the item's configuration, which is outside the model)"""
    for k, it in enumerate(items):
        if not it.get("id"):
            it["id"] = f"{prefix}{k}"
        if it["type"] == "nest":
            assign_ids(it["items"], it["id"] + "_")


def collect_added(items, prefix, out, ls=None):
    """definitions of the detections add_condition items add; templates are substituted with the log source
    the item sees at its place in the pipeline (ls: key -> log source, from track())"""
    for k, it in enumerate(items):
        key = f"{prefix}{k}"
        if it["type"] == "nest":
            collect_added(it["items"], key + ".", out, ls)
        elif it["type"] == "add_condition":
            out[key] = template_subst(it["conditions"], ls[key]) if it.get("template") else it["conditions"]


def has_template(items):
    return any((it["type"] == "add_condition" and it.get("template")) or (it["type"] == "nest" and has_template(it["items"])) for it in items)


def finish_case(rule, expr, items, identity, pre=None):
    assign_ids(items)
    case = {"rule": rule, "expr": expr, "pipeline": {"name": "p", "priority": 10, "vars": VARS, "transformations": items},
            "identity": identity}
    if pre:
        case["pre"] = pre       # rule documents the same pipeline object processed before this rule
    added = {}
    collect_added(items, "", added, track(case)["ls"])
    case["added"] = added
    return case


def rule_fields(rule):
    out = []
    def det(d):
        if isinstance(d, dict):
            for k in d:
                f = k.split("|")[0]
                if f and f not in out:
                    out.append(f)
        elif isinstance(d, list):
            for x in d:
                if isinstance(x, (dict, list)):
                    det(x)
    for n, d in rule["detection"].items():
        if n != "condition":
            det(d)
    return out or ["f"]


NONIDEMPOTENT = [("^", "pre_"), ("$", "_post"), ("a", "aa"), ("^(.)", "\\1\\1")]


def gen_second(rng, rule, dep):
    """a transformation whose scope `dep` depends on the effect of the first one; values transformations
    incl. non-idempotent ones, field mappings, drop"""
    t = rng.choice(["replace_string", "replace_string", "case", "set_value", "map_string", "wildcard_placeholders",
                    "value_placeholders", "field_name_suffix", "drop_detection_item", "field_name_mapping", "convert_type"])
    it = {"type": t}
    if t == "replace_string":
        it["regex"], it["replacement"] = rng.choice(NONIDEMPOTENT)
    elif t == "case":
        it["method"] = rng.choice(["upper", "snake_case"])
    elif t == "set_value":
        it["value"] = rng.choice(["Z", 7, None])
    elif t == "map_string":
        it["mapping"] = {k: rng.choice(["x", ["x", "y"]]) for k in rng.sample(rule_plain_values(rule), 1) + ["a", "ab"]}
    elif t == "field_name_suffix":
        it["suffix"] = ".s"
    elif t == "field_name_mapping":
        it["mapping"] = {k: rng.choice(["m1", ["m1", "m2"]]) for k in rng.sample(TARGETS + C_FIELDS, 3)}
    elif t == "convert_type":
        it["target_type"] = "str"
    it.update(dep)
    return it


def gen_dependent_chain(rng, rule):
    """short chains where the second item is conditioned on the effect of the first"""
    fields = rule_fields(rule)
    kind = rng.choice(["map-then-field", "map-then-field", "map-then-applied", "mark-map-applied", "rule-applied", "fix-then-field"])
    if kind in ("map-then-field", "map-then-applied", "mark-map-applied"):
        src = rng.sample(fields, min(len(fields), rng.randint(1, 2)))
        tg = rng.sample(["x", "y", "z", "b"], 3)
        mapping = {f: ([tg[0], tg[1]] if rng.random() < 0.7 else tg[0]) for f in src}
        if rng.random() < 0.2:
            mapping[NULLKEY] = [tg[1], tg[2]]
        first = {"id": "M", "type": "field_name_mapping", "mapping": mapping}
        if rng.random() < 0.2:
            first = {"id": "M", "type": "field_name_prefix_mapping", "mapping": {src[0][:1]: [tg[0] + ".", tg[1] + "."]}}
    if kind == "map-then-field":
        dep = {"field_name_conditions": [{"type": rng.choice(["include_fields", "include_fields", "exclude_fields"]),
                                          "fields": rng.sample(tg + fields, rng.randint(1, 2))}]}
        if rng.random() < 0.15:
            dep["field_name_cond_not"] = True
        items = [first, gen_second(rng, rule, dep)]
        if rng.random() < 0.3:
            items.append(gen_second(rng, rule, {"field_name_conditions": [{"type": "include_fields", "fields": rng.sample(tg, 1)}]}))
    elif kind == "map-then-applied":
        dep = {"detection_item_conditions": [{"type": "processing_item_applied", "processing_item_id": "M"}]}
        if rng.random() < 0.3:
            dep["detection_item_cond_not"] = True
        items = [first, gen_second(rng, rule, dep)]
    elif kind == "mark-map-applied":
        a = gen_second(rng, rule, gen_scope(rng, allow_rule=False))
        a["id"] = "A"
        dep = {"detection_item_conditions": [{"type": "processing_item_applied", "processing_item_id": rng.choice(["A", "A", "M"])}]}
        if rng.random() < 0.2:
            dep["detection_item_cond_not"] = True
        items = [a, first, gen_second(rng, rule, dep)]
    elif kind == "rule-applied":
        a = gen_transformation(rng, rule, False)
        a["id"] = "A"
        dep = {"rule_conditions": [{"type": "processing_item_applied", "processing_item_id": rng.choice(["A", "A", "nope"])}]}
        if rng.random() < 0.3:
            dep["rule_cond_not"] = True
        items = [a, gen_second(rng, rule, dep)]
    else:
        fix = rng.choice([{"type": "field_name_prefix", "prefix": "p."}, {"type": "field_name_suffix", "suffix": "_s"}])
        f = rng.choice(fields)
        newname = ("p." + f) if "prefix" in fix else (f + "_s")
        fix["id"] = "M"
        dep = {"field_name_conditions": [{"type": "include_fields", "fields": [rng.choice([newname, newname, f])]}]}
        items = [fix, gen_second(rng, rule, dep)]
    if rng.random() < 0.15:
        items = [{"type": "nest", "items": items}]
    return items


HASH_VALUES = ["MD5=a1", "SHA1=b2", "MD5=c3", "SHA256=dd", "SHA1=ee", "IMPHASH=zz", "md5|ff", "*SHA1=Q7?", "MD5=a=b", "SHA1=b*c",
               "0123456789abcdef0123456789abcdef", "*0123456789abcdef0123456789abcdef01234567*", "sha256=X", "MD5=", "plainword"]


KW_MODS = ["|all", "|all", "|cased", "|startswith", "|endswith", "|contains", "|re", "|contains|all", "|cased|all", "|startswith|all",
           "|endswith|all", "|neq", "|windash", "|re|i", "|contains|cased"]
KW_STRS = ["kw", "k*w", "two words", "*pre", "post*", "x\"y", "Kw\\\\d", "a?b", "powershell", "enc*command", "-a /b"]


def gen_kw_entry(rng):
    """a keyword entry with modifiers: '|mods': value(s)"""
    mod = rng.choice(KW_MODS)
    if "re" in mod:
        v = rng.choice(["a.*b", "^x$", "(a|b)c"])
        return mod, (v if rng.random() < 0.6 else [v, "k[0-9]"])
    n = rng.choice([1, 2, 2, 3]) if "all" not in mod else rng.choice([2, 2, 3])
    vals = [rng.choice(KW_STRS) for _ in range(n)]
    if mod in ("|neq",) and rng.random() < 0.2:
        vals.append(7)
    return mod, (vals if len(vals) > 1 or rng.random() < 0.5 else vals[0])


def gen_kwmap_case(rng):
    """keyword detections with and without modifiers, next to fielded items, mapped by a null-key field mapping to one
    or several fields; alone, in chains, under negation"""
    dets = {}
    names = rng.sample(NAMES, rng.randint(1, 3))
    for nm in names:
        r = rng.random()
        if r < 0.55:
            d = {}
            k, v = gen_kw_entry(rng)
            d[k] = v
            for _ in range(rng.choice([0, 0, 1, 2])):
                kk, vv = c_gen_item(rng)
                d[kk] = vv
            if rng.random() < 0.5:
                d = dict(reversed(list(d.items())))
            dets[nm] = d if rng.random() < 0.8 else [d, {"g": 1}]
        elif r < 0.8:
            dets[nm] = [rng.choice(KW_STRS + [5]) for _ in range(rng.randint(1, 3))]
        else:
            dets[nm] = c_gen_detection(rng)
    expr = gen_expr(rng, names, rng.choice([0, 1, 1, 2]))
    while not selectors_inhabited(expr, names):
        expr = gen_expr(rng, names, 1)
    tg = rng.choice(["msg", "msg", ["msg", "raw"], ["m1", "m2", "m3"], "f"])
    mapping = {NULLKEY: tg}
    if rng.random() < 0.3:
        mapping[rng.choice(C_FIELDS)] = rng.choice(["x", ["x", "y"]])
    first = {"id": "M", "type": "field_name_mapping", "mapping": mapping}
    if rng.random() < 0.15:
        first.update(gen_scope(rng))
    items = [first]
    r = rng.random()
    t0 = tg if isinstance(tg, str) else tg[0]
    if r < 0.25:
        items.append(gen_second(rng, {"detection": dets}, {"field_name_conditions": [{"type": "include_fields", "fields": [t0]}]}))
    elif r < 0.35:
        items.append(gen_second(rng, {"detection": dets}, {"detection_item_conditions": [{"type": "processing_item_applied", "processing_item_id": "M"}]}))
    elif r < 0.45:
        items.insert(0, gen_second(rng, {"detection": dets}, {}))
    elif r < 0.5:
        items = [{"type": "nest", "items": items}]
    return dets, expr, items


def gen_hashes_case(rng):
    """Hashes items with several hashes per algorithm in every interleaving, unknown algorithms, contains / all /
    negation, scopes; valid_hash_algos, field_prefix, drop_algo_prefix, field_to_parse variations"""
    custom = rng.random() < 0.15
    hf = "md5" if custom else rng.choice(["Hashes", "Hashes", "Hash"])
    mod = rng.choice(["", "", "|contains", "|contains", "|contains|all", "|all", "|neq", "|contains|neq", "|endswith", "|cased"])
    n = rng.choice([1, 2, 3, 3, 4, 5])
    pool = rng.choice([HASH_VALUES[:5], HASH_VALUES[:5], HASH_VALUES[:8], HASH_VALUES])
    vals = [rng.choice(pool) for _ in range(n)]
    if rng.random() < 0.1 and mod in ("", "|all", "|neq"):
        vals.append(5)                       # a non-string value: the item is left alone
    det = {hf + mod: vals if len(vals) > 1 or rng.random() < 0.5 else vals[0]}
    if rng.random() < 0.5:
        k, v = c_gen_item(rng)
        det[k] = v
    dets = {"sel": det if rng.random() < 0.7 else [det, {"g": 1}]}
    if rng.random() < 0.3:
        dets["other"] = {"Hashes|contains": rng.sample(HASH_VALUES[:6], 2), "f": "x"}
    names = list(dets)
    expr = gen_expr(rng, names, rng.choice([0, 1, 1, 2]))
    while not selectors_inhabited(expr, names):
        expr = gen_expr(rng, names, 1)
    it = {"type": "hashes_fields",
          "valid_hash_algos": rng.choice([["MD5", "SHA1", "SHA256"], ["MD5", "SHA1", "SHA256"], ["MD5"], ["SHA1", "IMPHASH"], ["SHA256", "MD5"]]),
          "field_prefix": rng.choice(["File", "File", "", "h.", "keyword"])}
    if rng.random() < 0.25 and it["field_prefix"]:
        it["drop_algo_prefix"] = True
    if custom:
        it["field_to_parse"] = ["md5", "Hashes"]
    if rng.random() < 0.25:
        it.update(gen_scope(rng))
    items = [it]
    r = rng.random()
    if r < 0.2:      # followed by a transformation scoped to one of the new fields / to what hashes_fields touched
        items.append(gen_second(rng, {"detection": dets}, {"field_name_conditions": [{"type": "include_fields", "fields": [it["field_prefix"] + "MD5"]}]}))
    elif r < 0.3:
        it["id"] = "H"
        items.append(gen_second(rng, {"detection": dets}, {"detection_item_conditions": [{"type": "processing_item_applied", "processing_item_id": "H"}]}))
    elif r < 0.4:
        items.insert(0, {"type": "field_name_mapping", "mapping": {"f": "Hashes", "g": ["x", "y"]}})
    return dets, expr, items


def gen_regex_case(rng):
    dets, expr, _ = gen_plain_rule(rng)
    it = {"type": "regex"}
    if rng.random() < 0.7:
        it["method"] = rng.choice(["plain", "ignore_case_flag", "ignore_case_brackets"])
    if rng.random() < 0.4:
        it.update(gen_scope(rng))
    return dets, expr, [it]


def gen_plain_rule(rng):
    names = rng.sample(NAMES, rng.randint(1, 2))
    dets = {}
    for nm in names:
        d = {}
        for _ in range(rng.choice([1, 2, 2, 3])):
            f = rng.choice(C_FIELDS)
            mod = rng.choice(["", "", "|contains", "|startswith", "|endswith", "|all", "|cased", "|neq", "|re", "|contains|all"])
            pool = ["aB*c?d", "x.y", "a b", "A-z", "q\"r", "p«q", "", "(x)|[y]", "a\\\\b", "k#~&", "1+1=2", "Tab\there", 5, "$^{}"]
            if mod == "|re":
                v = rng.choice(["a.*b", "^x$"])
            elif "all" in mod or rng.random() < 0.4:
                v = [rng.choice([x for x in pool if x != ""]) for _ in range(rng.randint(2, 3))]
            else:
                v = rng.choice(pool)
            d[f + mod] = v
        dets[nm] = d if rng.random() < 0.8 else [d, {"h": "z"}]
    expr = gen_expr(rng, names, rng.choice([0, 1, 2]))
    while not selectors_inhabited(expr, names):
        expr = gen_expr(rng, names, 1)
    return dets, expr, None


def gen_convertnum_case(rng):
    nums = ["17", "-3", "0", "42", "007", "+5", " 8 ", "1_000"]
    bad = ["1.5", "x", "1e3", "%x%"]
    n = {"n" + rng.choice(["", "|all", "|neq", "|cased"]): [rng.choice(nums) for _ in range(rng.randint(1, 3))]}
    if rng.random() < 0.12:
        n[next(iter(n))].append(rng.choice(bad))     # the implementation rejects the rule
    d = dict(n)
    d["f"] = rng.choice(["x", 5, "a*"])
    if rng.random() < 0.3:
        d["n|windash"] = "-3"
    dets = {"sel": d, "other": {"g": "12", "n": 3}}
    names = list(dets)
    expr = gen_expr(rng, names, rng.choice([0, 1, 2]))
    while not selectors_inhabited(expr, names):
        expr = gen_expr(rng, names, 1)
    it = {"type": "convert_type", "target_type": "num"}
    it["field_name_conditions"] = [{"type": "include_fields", "fields": rng.choice([["n"], ["n", "g"], ["n"]])}]
    items = [it]
    if rng.random() < 0.25:
        items.append({"type": "convert_type", "target_type": "str"})
    if rng.random() < 0.2:
        items.insert(0, {"type": "map_string", "mapping": {"17": "18", "x": "99"}})
    return dets, expr, items


def gen_queryph_case(rng):
    d = {"f|expand": rng.choice(["%x%", "%y%", ["%x%", "%y%"], ["%x%", "lit"]]), "g": rng.choice(["a", 1])}
    if rng.random() < 0.3:
        d["h|expand|neq"] = "%z%"
    if rng.random() < 0.12:
        d["h|expand"] = "a%x%"        # rejected: placeholder among other parts
    dets = {"sel": d, "other": {"f|expand": "%z%"}}
    names = list(dets)
    expr = gen_expr(rng, names, rng.choice([0, 1, 2]))
    while not selectors_inhabited(expr, names):
        expr = gen_expr(rng, names, 1)
    it = {"type": "query_expression_placeholders", "expression": rng.choice(["{field}@@{id}", "{id}<<{field}", "lookup:{id}:{field}"])}
    if rng.random() < 0.6:
        it["mapping"] = rng.choice([{"x": "xx"}, {"y": "list_y", "z": ""}])
    if rng.random() < 0.5:
        it[rng.choice(["include", "exclude"])] = rng.sample(["x", "y", "z"], rng.randint(1, 2))
    items = [it]
    if rng.random() < 0.5:
        items.append(rng.choice([{"type": "wildcard_placeholders"}, {"type": "value_placeholders"},
                                 {"type": "field_name_mapping", "mapping": {"f": ["f1", "f2"]}}]))
    return dets, expr, items


def gen_extract_case(rng):
    pool = ["Dword:00001", "Str:null", "nomatch", "Qw:5", "F:1.5", "Str:None", "Z:0", "Dword:", "B:1e3", "n:abc*", "x:07", "K:-2"]
    mod = rng.choice(["", "", "", "|all", "|neq", "|contains", "|cased"])
    vals = [rng.choice(pool) for _ in range(rng.choice([1, 1, 2, 3]))]
    d = {"reg" + mod: vals if len(vals) > 1 else vals[0], "g": rng.choice([1, "v"])}
    if rng.random() < 0.2:
        d["h"] = ["Qw:5", 7]            # a non-string value: left alone
    dets = {"sel": d if rng.random() < 0.7 else [d, {"reg": "Qw:9"}]}
    names = list(dets)
    expr = gen_expr(rng, names, rng.choice([0, 1, 1]))
    while not selectors_inhabited(expr, names):
        expr = gen_expr(rng, names, 1)
    it = {"type": "extract_fields",
          "regex": rng.choice(["(?P<type>[A-Za-z]+):(?P<val>[0-9a-zA-Z.+-]*)", "(?P<type>[A-Z][a-z]*):(?P<val>[0-9]+)?", "(?P<all>.+:.*[0-9])"])}
    if rng.random() < 0.6:
        it["field_prefix"] = rng.choice(["reg", "x", ""])
    if rng.random() < 0.4:
        it["preserve_unmatched"] = True
    if rng.random() < 0.5:
        it["field_name_conditions"] = [{"type": "include_fields", "fields": ["reg"]}]
    items = [it]
    if rng.random() < 0.3:
        items.append(gen_second(rng, {"detection": dets}, {"field_name_conditions": [{"type": "include_fields", "fields": ["reg.type", "type", "reg"]}]}))
    return dets, expr, items


SPECIAL_GENERATORS = [gen_hashes_case, gen_hashes_case, gen_hashes_case, gen_regex_case, gen_convertnum_case, gen_queryph_case, gen_extract_case,
                      gen_kwmap_case, gen_kwmap_case, gen_kwmap_case]


def selectors_inhabited(e, names):
    if e[0] == "sel":
        return e[2] == "them" or any(glob_match(e[2], n) for n in names)
    if e[0] == "not":
        return selectors_inhabited(e[1], names)
    if e[0] in ("and", "or"):
        return all(selectors_inhabited(a, names) for a in e[1])
    return True


def gen_tr(tier, rng):
    n = 1000 if tier == "quick" else 16000
    out = []
    for i in range(n):
        names = rng.sample(NAMES, rng.randint(1, 3))
        dets = {nm: c_gen_detection(rng) for nm in names}
        expr = gen_expr(rng, names, rng.choice([0, 1, 1, 2, 2]))
        for _ in range(20):      # selectors that match no detection have no meaning (C01): draw again
            if selectors_inhabited(expr, names):
                break
            expr = gen_expr(rng, names, rng.choice([0, 1, 1, 2, 2]))
        rule = {"title": "t", "logsource": dict(rng.choice(LOGSOURCES)), "detection": dict(dets, condition=spell(expr))}
        if rng.random() < 0.3:
            rule["fields"] = rng.sample(C_FIELDS + ["other"], rng.randint(1, 3))
        elif rng.random() < 0.15:
            rule["fields"] = [rng.choice(C_FIELDS + ["other"]) for _ in range(rng.randint(2, 4))]    # with repetitions
        if rng.random() < 0.1:
            rule[rng.choice(["myattr", "env"])] = rng.choice(["dev", "prod"])       # custom attribute of the rule document
        identity = rng.random() < 0.25
        r = rng.random()
        if rng.random() < 0.25:
            identity = False
            dets, expr, items = rng.choice(SPECIAL_GENERATORS)(rng)
            rule = {"title": "t", "logsource": dict(rng.choice(LOGSOURCES)), "detection": dict(dets, condition=spell(expr))}
        elif rng.random() < 0.2:
            identity = False
            items = gen_attr_chain(rng, rule)
        elif rng.random() < 0.3:
            identity = False
            items = gen_dependent_chain(rng, rule)
        elif r < 0.7:
            items = [gen_transformation(rng, rule, identity)]
        elif r < 0.85:
            items = [gen_transformation(rng, rule, identity), gen_transformation(rng, rule, identity and rng.random() < 0.5)]
        else:
            inner = [gen_transformation(rng, rule, identity) for _ in range(rng.randint(1, 2))]
            nest = {"type": "nest", "items": inner}
            nest.update(gen_scope(rng) if rng.random() < 0.5 else {})
            items = [nest]
        pre = None
        if (has_template(items) and rng.random() < 0.6) or rng.random() < 0.08:
            # the pipeline object has already processed another rule (same detections, another log source / other fields)
            other = dict(rule, logsource=dict(rng.choice([l for l in LOGSOURCES if l != rule["logsource"]])))
            if rng.random() < 0.5:
                other["fields"] = ["zz", "f"]
            pre = [other] if rng.random() < 0.8 else [other, dict(other, logsource={"category": "third", "product": "p3", "service": "s3"})]
        out.append(finish_case(rule, expr, items, identity, pre))
    return out + hostile_cases()


def hostile_cases():
    def mk(dets, expr, items, identity=False):
        rule = {"title": "t", "logsource": {"category": "c"}, "detection": dict(dets, condition=spell(expr))}
        return finish_case(rule, expr, items, identity)
    def mkp(ls, pre_ls, dets, expr, items):
        rule = {"title": "t", "logsource": ls, "detection": dict(dets, condition=spell(expr))}
        return finish_case(rule, expr, items, False, [dict(rule, logsource=l) for l in pre_ls])
    def mkl(ls, dets, expr, items):
        rule = {"title": "t", "logsource": ls, "fields": ["f", "Image"], "detection": dict(dets, condition=spell(expr))}
        return finish_case(rule, expr, items, False)
    sel = ["id", "sel"]
    out = [
        mk({"sel": {"f|neq": "v"}}, sel, [{"type": "field_name_mapping", "mapping": {"f": ["a", "b"]}}]),
        mk({"sel": {"f|neq": ["v", "w"], "g": 1}}, ["not", sel], [{"type": "field_name_mapping", "mapping": {"f": ["a", "b", "c"]}}]),
        mk({"sel": ["kw", 123]}, sel, [{"type": "field_name_mapping", "mapping": {NULLKEY: "msg"}}]),
        mk({"sel": ["kw", "*x*", "k?"]}, sel, [{"type": "field_name_mapping", "mapping": {NULLKEY: ["m1", "m2"]}}]),
        mk({"sel": {"h": "x\\\\*", "f|cased": "Abc"}}, sel, [{"type": "replace_string", "regex": "zzz", "replacement": "y"}], True),
        mk({"sel": {"g": 123}}, sel, [{"type": "replace_string", "regex": "zzz", "replacement": "y"}], True),
        mk({"sel": {"f": "a"}}, sel, [{"type": "drop_detection_item"}]),
        mk({"sel": {"f": "a"}, "s2": {"g": 1}}, ["and", [sel, ["not", ["id", "s2"]]]],
           [{"type": "drop_detection_item", "field_name_conditions": [{"type": "include_fields", "fields": ["g"]}]}]),
        mk({"sel": {"f": "a"}}, ["sel", "1", "them"], [{"type": "add_condition", "name": "extra", "conditions": {"g": 1}}]),
        mk({"sel": {"f|all": ["a", "b"]}}, sel, [{"type": "map_string", "mapping": {"a": ["x", "y"]}}]),
        mk({"sel": {"f": ["a", "b"]}}, sel, [{"type": "map_string", "mapping": {"a": [], "b": []}}]),
        mk({"sel": {"f|fieldref": "g", "g": 1}}, sel, [{"type": "field_name_mapping", "mapping": {"g": ["g1", "g2"]}}]),
        mk({"sel": {"f|fieldref|neq": "g"}}, sel, [{"type": "field_name_mapping", "mapping": {"g": ["g1", "g2"], "f": ["f1", "f2"]}}]),
        mk({"sel": {"f|expand|all": ["%x%", "b"]}}, sel, [{"type": "value_placeholders"}]),
        mk({"sel": [{"f": "a"}, {"g|all": ["MixedCase*", "twoWords"]}]}, sel, [{"type": "case", "method": "snake_case"}]),
        # copies of a one-to-many mapping are independent items: a value transformation scoped to one mapped
        # field must not leak to the sibling, a non-idempotent one is applied once per copy
        mk({"sel": {"src": "foo"}}, sel, [{"type": "field_name_mapping", "mapping": {"src": ["x", "y"]}},
                                           {"type": "set_value", "value": "bar",
                                            "field_name_conditions": [{"type": "include_fields", "fields": ["x"]}]}]),
        mk({"sel": {"src": ["foo", "f*"], "g": 1}}, sel, [{"type": "field_name_mapping", "mapping": {"src": ["x", "y"]}},
                                                        {"type": "replace_string", "regex": "^", "replacement": "pre_"}]),
        mk({"sel": {"src|neq": "foo"}}, sel, [{"id": "M", "type": "field_name_mapping", "mapping": {"src": ["x", "y", "z"]}},
                                              {"type": "case", "method": "upper",
                                               "field_name_conditions": [{"type": "exclude_fields", "fields": ["y"]}]},
                                              {"type": "replace_string", "regex": "$", "replacement": "_post",
                                               "detection_item_conditions": [{"type": "processing_item_applied", "processing_item_id": "M"}]}]),
        # hashes_fields: the same target field in non-adjacent runs, unknown algorithm, contains, all, negation
        mk({"sel": {"Hashes": ["MD5=a", "SHA1=b", "MD5=c"]}}, sel,
           [{"type": "hashes_fields", "valid_hash_algos": ["MD5", "SHA1"], "field_prefix": "File"}]),
        mk({"sel": {"Hashes|contains": ["MD5=a", "IMPHASH=x", "SHA1=b", "MD5=c", "SHA1=d"], "g": 1}}, ["not", sel],
           [{"type": "hashes_fields", "valid_hash_algos": ["MD5", "SHA1", "SHA256"], "field_prefix": "File"}]),
        mk({"sel": {"Hashes|contains|all": ["MD5=a", "SHA1=b", "MD5=c"]}}, sel,
           [{"type": "hashes_fields", "valid_hash_algos": ["MD5", "SHA1"], "field_prefix": ""}]),
        mk({"sel": {"Hashes|neq": ["MD5=a", "SHA1=b", "MD5=c"]}}, sel,
           [{"type": "hashes_fields", "valid_hash_algos": ["MD5", "SHA1"], "field_prefix": "File", "drop_algo_prefix": True}]),
        mk({"sel": {"reg|neq": "Qw:5"}}, sel, [{"type": "extract_fields", "regex": "(?P<type>[A-Za-z]+):(?P<val>[0-9]+)"}]),
        # change_logsource sets exactly the given attributes: the omitted ones are cleared, which followers see
        mkl({"category": "process_creation", "product": "windows"}, {"sel": {"Image": "a"}}, sel,
            [{"type": "change_logsource", "service": "sysmon"},
             {"type": "field_name_prefix", "prefix": "win.", "rule_conditions": [{"type": "logsource", "product": "windows"}]}]),
        mkl({"category": "process_creation", "product": "windows"}, {"sel": {"Image": "a", "g": 1}}, sel,
            [{"type": "change_logsource", "service": "sysmon"},
             {"type": "drop_detection_item", "rule_conditions": [{"type": "logsource", "category": "process_creation"}], "rule_cond_not": True,
              "field_name_conditions": [{"type": "include_fields", "fields": ["g"]}]}]),
        mkl({"category": "process_creation", "product": "windows"}, {"sel": {"Image": "a"}}, sel,
            [{"type": "change_logsource", "service": "sysmon"},
             {"type": "add_condition", "template": True, "conditions": {"source": "$category/$service"}}]),
        mkl({"category": "c", "product": "linux", "service": "auditd"}, {"sel": {"f": "a"}}, sel,
            [{"type": "set_state", "key": "k", "val": "v"}, {"type": "set_custom_attribute", "attribute": "env", "value": "prod"},
             {"type": "field_name_suffix", "suffix": "_s", "rule_conditions": [{"type": "processing_state", "key": "k", "val": "v"},
                                                                                {"type": "rule_attribute", "attribute": "env", "value": "prod"}]},
             {"type": "set_value", "value": "Z", "rule_conditions": [{"type": "rule_attribute", "attribute": "env", "value": "prod", "op": "ne"}]}]),
        # keyword entries with modifiers mapped to a field: substring semantics composed with the modifier
        mk({"sel": {"EventID": 4688}, "kw_all": {"|all": ["powershell", "enc*command"]}, "kw_any": ["mimikatz", "sekurlsa*"]},
           ["and", [["id", "sel"], ["or", [["id", "kw_all"], ["id", "kw_any"]]]]],
           [{"type": "field_name_mapping", "mapping": {NULLKEY: "msg"}}]),
        mk({"sel": {"EventID": 4688}, "kw_all": {"|all": ["powershell", "enc*command"]}, "kw_any": ["mimikatz", "sekurlsa*"]},
           ["and", [["id", "sel"], ["or", [["id", "kw_all"], ["id", "kw_any"]]]]],
           [{"type": "field_name_mapping", "mapping": {NULLKEY: ["msg", "raw"]}}]),
        mk({"sel": {"|cased": ["Kw", "x*"], "f": 1}, "s2": {"|startswith": "pre", "|endswith|all": ["a", "b"]}, "s3": {"|re": "a.*b"}},
           ["and", [["id", "sel"], ["not", ["id", "s2"]], ["id", "s3"]]],
           [{"type": "field_name_mapping", "mapping": {NULLKEY: ["msg", "raw"], "f": "g"}}]),
        mk({"sel": {"|neq": ["a", "b*"], "|contains|all": ["c", "d"]}}, ["not", sel],
           [{"id": "M", "type": "field_name_mapping", "mapping": {NULLKEY: "msg"}},
            {"type": "replace_string", "regex": "^", "replacement": "pre_",
             "detection_item_conditions": [{"type": "processing_item_applied", "processing_item_id": "M"}]}]),
        # several rules through one pipeline object: the templates of add_condition are filled per rule
        mkp({"category": "process_creation", "product": "windows"}, [{"category": "network", "product": "linux", "service": "auditd"}],
            {"sel": {"Image": "a"}}, sel, [{"type": "add_condition", "template": True, "conditions": {"source": "$category/$service", "os": "$product"}}]),
        mkp({"product": "windows", "service": "sysmon"}, [{"category": "c"}, {"category": "x", "product": "y", "service": "z"}],
            {"sel": {"Image": "a"}}, ["not", sel],
            [{"type": "add_condition", "template": True, "negated": True, "conditions": {"idx": ["$product-$service", "lit"], "n": 1}},
             {"type": "field_name_prefix", "prefix": "w.", "rule_conditions": [{"type": "logsource", "product": "windows"}]}]),
        mkp({"category": "c", "product": "linux"}, [{"category": "process_creation", "product": "windows"}],
            {"sel": {"f": "a"}}, sel,
            [{"type": "nest", "items": [{"type": "change_logsource", "service": "sysmon"},
                                        {"type": "add_condition", "template": True, "conditions": {"source": "${category}:$service"}}]}]),
        # marks survive the copies: A marks f and g, f is mapped one-to-many, C applies where A was applied
        mk({"sel": {"f": "foo", "g": "bar"}}, sel, [{"id": "A", "type": "case", "method": "upper"},
                                                    {"id": "B", "type": "field_name_mapping", "mapping": {"f": ["x", "y"]}},
                                                    {"id": "C", "type": "set_value", "value": "Z",
                                                     "detection_item_conditions": [{"type": "processing_item_applied", "processing_item_id": "A"}]}]),
        mk({"sel": {"f": "foo", "g": "bar"}}, sel, [{"id": "B", "type": "field_name_mapping", "mapping": {"f": "x"}},
                                                    {"id": "C", "type": "set_value", "value": "Z",
                                                     "detection_item_conditions": [{"type": "processing_item_applied", "processing_item_id": "B"}]},
                                                    {"id": "D", "type": "field_name_suffix", "suffix": "_s",
                                                     "rule_conditions": [{"type": "processing_item_applied", "processing_item_id": "C"}]}]),
    ]
    return out


# =====================================================================================================
# Coq encoders
def c_parts(ps):
    t = []
    for p in ps:
        if p[0] == "s":
            t.append("PStr " + cstr(p[1]))
        elif p[0] == "m":
            t.append("PMulti")
        elif p[0] == "q":
            t.append("PSingle")
        elif p[0] == "p":
            t.append("PPh " + cstr(p[1]))
        else:
            raise Unspellable("part")
    return clist(t)


def c_aval(v):
    k = v[0]
    if k == "str":
        return "(AStr %s %s)" % (cbool(v[1]), c_parts(v[2]))
    if k == "num":
        return "(ANum %s)" % cstr(v[1])
    if k == "bool":
        return "(ABool %s)" % cbool(v[1])
    if k == "null":
        return "ANull"
    if k == "re":
        return "(ARe %s %s)" % (cstr(v[1]), cstr(v[2]))
    if k == "ref":
        return "(ARef %s %s %s)" % (cstr(v[1]), cbool(v[2]), cbool(v[3]))
    if k == "query":
        return "(AQuery %s %s)" % (cstr(v[1]), cstr(v[2]))
    return "(AOther %s)" % cstr(json.dumps(v[1:]))


def c_value(v):
    if v[0] == "exp":
        return "(VExp %s)" % clist(c_aval(x) for x in v[1])
    return "(V %s)" % c_aval(v)


def c_ostr(s):
    return copt(None if s is None else cstr(s))


def c_item(it):
    return "(mkI %s %s %s %s %s)" % (c_ostr(it["f"]), clist(c_value(v) for v in it["vs"]), cbool(it["all"]), cbool(it["neg"]),
                                     clist(cstr(x) for x in it.get("ap", [])))


def c_det(t):
    if "items" in t:
        return "(DD %s %s)" % (clist(c_det(x) for x in t["items"]), cbool(t["and"]))
    return "(DI %s)" % c_item(t)


def c_doc(d):
    if d[0] == "E":
        return "(Entry %s)" % c_item(d[1])
    if d[0] == "Neg":
        return "(Neg %s)" % c_doc(d[1])
    return "(%s %s)" % (d[0], clist(c_doc(x) for x in d[1]))


def c_attrs(a):
    ls = a["logsource"]
    d = lambda m: clist("(%s, %s)" % (cstr(k), cstr(v)) for k, v in m.items())
    return "(mkA (%s, (%s, %s)) %s %s %s)" % (c_ostr(ls.get("category")), c_ostr(ls.get("product")), c_ostr(ls.get("service")),
                                              d(a["custom"]), d(a["state"]), clist(cstr(x) for x in a["applied"]))


def c_rule(r):
    return "(mkRule %s %s %s %s)" % (clist("(%s, %s)" % (cstr(n), c_det(t)) for n, t in r["dets"]), cstr(r["cond"]),
                                     clist(cstr(f) for f in r["fields"]), c_attrs(r["attrs"]))


def c_fres(fr):
    return "(FOne %s)" % cstr(fr[1]) if fr[0] == "one" else "(FMany %s)" % clist(cstr(x) for x in fr[1])


def c_conds(c):
    def ic(k, a):
        return "(IApplied %s)" % cstr(a) if k == "applied" else "(%s %s)" % ("IIsNull" if k == "null" else "IWild", cbool(a))
    def rc(x):
        if x[0] == "applied":
            return "(RApplied %s)" % cstr(x[1])
        if x[0] == "state":
            return "(RState %s %s)" % (cstr(x[1]), cstr(x[2]))
        if x[0] == "attr":
            return "(RAttr %s %s %s)" % (cbool(x[1]), cstr(x[2]), cstr(x[3]))
        return "(RLogsource %s %s %s)" % (c_ostr(x[1]), c_ostr(x[2]), c_ostr(x[3]))
    return "(mkC %s %s %s %s %s %s %s %s)" % (
        c_ostr(c["id"]), cbool(c["rule"]), clist(rc(x) for x in c["rconds"]), cbool(c["rneg"]), clist("(%s %s)" % ("FInc" if k == "inc" else "FExc", clist(cstr(x) for x in l)) for k, l in c["fconds"]),
        cbool(c["fneg"]), clist(ic(k, a) for k, a in c["iconds"]), cbool(c["ineg"]))


def c_phsel(inc, exc):
    f = lambda l: copt(None if l is None else clist(cstr(x) for x in l))
    return "{| ph_inc := %s; ph_exc := %s |}" % (f(inc), f(exc))


def doc_plains(d, out):
    if d[0] == "E":
        for v in d[1]["vs"]:
            for x in (v[1] if v[0] == "exp" else [v]):
                if x[0] == "str":
                    out.add(plain_of(x[2]))
                elif x[0] == "num":
                    out.add(plain_of(sparse(x[1])))
    elif d[0] == "Neg":
        doc_plains(d[1], out)
    else:
        for x in d[1]:
            doc_plains(x, out)


def all_plains(case, r):
    """plain forms of every string / number that can meet a replace_string step: values of the rule as
    loaded, of added detections, of the documents after every step of the hand rewrite, and of the
    implementation's final rule (the re.sub oracle of the model is tabulated on these)"""
    out = set(plain_strings(r["rin"], r["added"])) | set(plain_strings(r["rout"]))
    docs = [[n, doc_of(t)] for n, t in r["rin"]["dets"]]
    expr = case["expr"]
    vars_ = case["pipeline"].get("vars", {})
    drawn = drawn_names(case, r["rin"], r["rout"])
    rm = rule_matches(case)
    repl = []
    for k, item in enumerate(case["pipeline"]["transformations"]):
        p = parse_item(item, str(k), r["added"], drawn, rm)
        steps = [(p[1], p[2])] if p[0] == "item" else (p[2] if p[1]["rule"] else [])
        for c, ts in steps:
            docs, expr = rewrite_step(c, ts, vars_, docs, expr)
            for _, d in docs:
                doc_plains(d, out)
            if ts[0] == "replace":
                repl.append(ts)
    # where model and rewrite part ways (known findings) the model meets values the rewrite never has: close the
    # table under the substitutions of the pipeline
    for _ in range(len(repl)):
        for ts in repl:
            for p0 in list(out):
                new = re.sub(ts[1], ts[2], p0)
                out.add(new)
                out.add(plain_of(sparse(re.sub(r"\\(?![*?])", r"\\\\", new))))
    return sorted(out)


def plain_strings(r, added=None):
    out = set()
    def det(t):
        if "items" in t:
            for x in t["items"]:
                det(x)
        else:
            for v in t["vs"]:
                if v[0] == "str":
                    out.add(plain_of(v[2]))
                elif v[0] == "num":
                    out.add(plain_of(sparse(v[1])))
    for _, t in r["dets"]:
        det(t)
    for t in (added or {}).values():
        det(t)
    return sorted(out)


def c_tspec(ts, vars_, plains):
    k = ts[0]
    if k == "fieldmap":
        return "(TFieldMap %s)" % clist("(%s, %s)" % (c_ostr(a), c_fres(b)) for a, b in ts[1])
    if k == "prefixmap":
        return "(TPrefixMap %s)" % clist("(%s, %s)" % (cstr(a), c_fres(b)) for a, b in ts[1])
    if k == "prefix":
        return "(TPrefix %s)" % cstr(ts[1])
    if k == "suffix":
        return "(TSuffix %s)" % cstr(ts[1])
    if k == "drop":
        return "TDrop"
    if k == "addcond":
        if ts[2] is None:
            raise Unspellable("add_condition without detection")
        # no name drawn: the item was not applied (rule conditions), the name is irrelevant
        return "(TAddCond %s %s %s)" % (cstr(ts[1] if ts[1] is not None else "_cond_unused"), c_det(ts[2]), cbool(ts[3]))
    if k == "setvalue":
        return "(TSetValue %s)" % c_aval(ts[1])
    if k == "case":
        return "(TCase %s)" % {"lower": "CLower", "upper": "CUpper", "snake_case": "CSnake"}[ts[1]]
    if k == "mapstring":
        return "(TMapString %s)" % clist("(%s, %s)" % (cstr(a), clist(cstr(x) for x in b)) for a, b in ts[1])
    if k == "replace":
        # re.sub as a finite table over the plain forms occurring in the rule (oracle instantiation)
        return "(TReplace %s)" % clist("(%s, %s)" % (cstr(p), cstr(re.sub(ts[1], ts[2], p))) for p in plains)
    if k == "convertstr":
        return "TConvertStr"
    if k == "chlog":
        return "(TChangeLogsource %s %s %s)" % (c_ostr(ts[1]), c_ostr(ts[2]), c_ostr(ts[3]))
    if k == "setcustom":
        return "(TSetCustom %s %s)" % (cstr(ts[1]), cstr(ts[2]))
    if k == "setstate":
        return "(TSetState %s %s)" % (cstr(ts[1]), cstr(ts[2]))
    if k in ("addfield", "removefield", "setfield"):
        return "(%s %s)" % ({"addfield": "TAddField", "removefield": "TRemoveField", "setfield": "TSetField"}[k], clist(cstr(x) for x in ts[1]))
    if k == "regex":
        return "(TRegex %s)" % {"plain": "RPlain", "ignore_case_flag": "RFlag", "ignore_case_brackets": "RBrackets"}[ts[1]]
    if k == "convertnum":
        return "(TConvertNum %s)" % clist("(%s, %s)" % (cstr(p), cstr(py_number(p))) for p in plains if py_number(p) is not None)
    if k == "queryph":
        return "(TQueryPh %s %s %s)" % (c_phsel(ts[1], ts[2]), cstr(ts[3]), clist("(%s, %s)" % (cstr(a), cstr(b)) for a, b in ts[4].items()))
    if k == "hashes":
        return "(THashes (mkH %s %s %s %s))" % (clist(cstr(x) for x in ts[1]), cstr(ts[2]), cbool(ts[3]), clist(cstr(x) for x in ts[4]))
    if k == "extract":
        rx = re.compile(ts[1])
        tbl, nums = [], {}
        for p in plains:
            m = rx.match(p)
            if not m:
                tbl.append("(%s, None)" % cstr(p))
                continue
            gs = []
            for g, gv in m.groupdict().items():
                gs.append("(%s, %s)" % (cstr(g), copt(None if gv is None else cstr(gv))))
                if gv:
                    n = py_capture_number(gv)
                    if n is not None:
                        nums[gv] = n
            tbl.append("(%s, Some %s)" % (cstr(p), clist(gs)))
        return "(TExtract (mkX %s %s %s %s))" % (copt(None if ts[2] is None else cstr(ts[2])), cbool(ts[3]), clist(tbl),
                                                 clist("(%s, %s)" % (cstr(a), cstr(b)) for a, b in nums.items()))
    if k == "wildph":
        return "(TWildPh %s)" % c_phsel(ts[1], ts[2])
    if k == "valueph":
        vs = clist("(%s, %s)" % (cstr(n), clist(cstr(str(y)) for y in (x if isinstance(x, list) else [x]))) for n, x in vars_.items())
        return "(TValuePh %s %s)" % (c_phsel(ts[1], ts[2]), vs)
    return "TNoop"


def c_pipeline(case, r):
    vars_ = case["pipeline"].get("vars", {})
    drawn = drawn_names(case, r["rin"], r["rout"])
    rm = rule_matches(case)
    plains = all_plains(case, r)
    out = []
    for k, item in enumerate(case["pipeline"]["transformations"]):
        p = parse_item(item, str(k), r["added"], drawn, rm)
        if p[0] == "item":
            out.append("(PItem %s %s)" % (c_conds(p[1]), c_tspec(p[2], vars_, plains)))
        else:
            out.append("(PNest %s %s)" % (c_conds(p[1]), clist("(%s, %s)" % (c_conds(c), c_tspec(t, vars_, plains)) for c, t in p[2])))
    return clist(out)


def c_query(q, other, ids):
    """QNone: no query (also: both sides raise the same error class); QBad: unreadable"""
    if "exc" in q:
        return "QNone" if ("exc" in other and other["exc"] == q["exc"]) else "QBad"
    if "unsupported" in q:
        return "QBad"
    if len(q["qs"]) == 0:
        return "QNone"
    if len(q["qs"]) != 1:
        return "QBad"
    ls = lex(q["qs"][0])
    if ls is None:
        return "QBad"
    out = []
    for t in ls:
        if t[0] == "L":
            out.append("TL")
        elif t[0] == "R":
            out.append("TR")
        elif t[0] == "op":
            out.append("(TOp %s)" % {"and": "OAnd", "or": "OOr", "not": "ONot"}[t[1]])
        else:
            d = decode_atom(t[1])
            mq = re.fullmatch(r'«(\w+)="qx-([0-9a-f]+)"»', t[1])
            if mq:      # marker of a query expression entry of the hand-rewritten document (spell_atom)
                f, ex, qid = json.loads(bytes.fromhex(mq.group(2)).decode())
                d = ("atom", ("text", ex.format(field=f, id=qid)), False)
            if d is None or d[0] != "atom":
                # atoms the C01 reader does not know (e.g. query expressions): identity by text
                d = ("atom", ("text", t[1]), False)
            out.append("(TAtom %d%%nat %s)" % (ids.setdefault(d[1], len(ids)), cbool(d[2])))
    return "(QToks %s)" % clist(out)


MAX_ATOMS = 11


def tr_to_coq(case, r):
    if "exc" in r or "apply_exc" in r or "skip" in r or "q1" not in r or "q2" not in r:
        return None
    if "unsupported" in r["q1"] or "unsupported" in r["q2"]:
        r["why_none"] = "backend cannot convert (e.g. value expansion of an unmapped keyword)"
        return None
    ids = {}
    try:
        q1 = c_query(r["q1"], r["q2"], ids)
        q2 = c_query(r["q2"], r["q1"], ids)
        if len(ids) > MAX_ATOMS:
            r["why_none"] = "too many atoms"
            return None
        fin = track(case)["final"]
        spec_attrs = {"logsource": fin["logsource"], "custom": {k: pj(v) for k, v in fin["custom"].items()},
                      "state": {k: pj(v) for k, v in fin["state"].items()}, "applied": fin["applied"]}
        return ("{| tc_pipe := %s; tc_in := %s; tc_out := %s; tc_rw := %s; tc_attrs := %s; tc_fields := %s; tc_q1 := %s; tc_q2 := %s; "
                "tc_natoms := %d%%nat |}" % (
            c_pipeline(case, r), c_rule(r["rin"]), c_rule(r["rout"]),
            clist("(%s, %s)" % (cstr(n), c_doc(d)) for n, d in r["rw"]), c_attrs(spec_attrs), clist(cstr(f) for f in fin["fields"]),
            q1, q2, len(ids)))
    except Unspellable as u:
        r["why_none"] = "unencodable: " + str(u)
        return None


# =====================================================================================================
# known findings: predicates on the input class
def iter_items(t):
    if "items" in t:
        for x in t["items"]:
            yield from iter_items(x)
    else:
        yield t


def steps_of(case, r):
    drawn = drawn_names(case, r["rin"], r["rout"])
    rm = rule_matches(case)
    for k, item in enumerate(case["pipeline"]["transformations"]):
        p = parse_item(item, str(k), r["added"], drawn, rm)
        if p[0] == "item":
            yield p[1], p[2]
        elif p[1]["rule"]:
            yield from p[2]


def bs_before_wildcard(parts):
    return any(a[0] == "s" and a[1].endswith("\\") and b[0] in "mq" for a, b in zip(parts, parts[1:]))


def doc_entries(d):
    if d[0] == "E":
        yield d[1]
    elif d[0] == "Neg":
        yield from doc_entries(d[1])
    else:
        for x in d[1]:
            yield from doc_entries(x)


def known_tr(case, r):
    """input classes of the known findings, evaluated on the documents each step of the pipeline meets"""
    if "rin" not in r or "rout" not in r:
        return None
    docs = [[n, doc_of(t)] for n, t in r["rin"]["dets"]]
    expr = case["expr"]
    vars_ = case["pipeline"].get("vars", {})
    for conds, ts in steps_of(case, r):
        if conds["rule"]:
            for _, d in docs:
                for it in doc_entries(d):
                    if not im(conds, it):
                        continue
                    afn = make_afn(ts)
                    if afn is not None and it["f"] is None and fm(conds, None) and afn(None) is not None \
                            and any(v[0] in ("num", "exp") for v in it["vs"]):
                        return "D28-keyword-number-mapped-to-field-exact-match"
                    if ts[0] == "extract" and it["neg"] and rw_extract(ts, it)[1]:
                        return "D34-extract-fields-drops-negation"
                    if ts[0] == "replace":
                        for v in it["vs"]:
                            if v[0] == "num" and re.sub(ts[1], ts[2], v[1]) == v[1]:
                                return "D30-replace-string-noop-turns-number-into-string"
                            if v[0] == "str" and re.sub(ts[1], ts[2], plain_of(v[2])) == plain_of(v[2]) and bs_before_wildcard(v[2]):
                                return "D10-replace-string-noop-backslash-before-wildcard"
        docs, expr = rewrite_step(conds, ts, vars_, docs, expr)
    return None


def py_oracle(case, r):
    """keyword entries mapped to a field: the rewrite of the specification is what the documented source-level
    entry (f|contains|<modifiers>: values) loads to, and what the implementation made of the keyword entry"""
    for x in r.get("kwdoc", []):
        if not x["ok"]:
            return "keyword entry %s of %s: documented form %s loads to %s, the pipeline produced %s" % (
                x["pos"], x["name"], json.dumps(x["doc"]), json.dumps(x["loaded"])[:300], json.dumps(x["got"])[:300])
    return None


def stratum(case, r):
    if "exc" in r:
        return "impl-rejects:" + r["exc"]
    if "apply_exc" in r:
        return "pipeline-raises:" + r["apply_exc"]["exc"]
    if "skip" in r:
        return "skipped:" + r["skip"].split(":")[0]
    if "why_none" in r:
        return "skipped:" + r["why_none"]
    kinds = []
    for it in case["pipeline"]["transformations"]:
        kinds.append(it["type"] if it["type"] != "nest" else "nest(" + ",".join(x["type"] for x in it["items"]) + ")")
    return ("identity:" if case.get("identity") else "") + "+".join(kinds)


def mutate(case, rng):
    out = []
    for _ in range(30):
        c = json.loads(json.dumps(case))
        names = [n for n in c["rule"]["detection"] if n != "condition"]
        c["expr"] = gen_expr(rng, names, rng.choice([0, 1, 2]))
        c["rule"]["detection"]["condition"] = spell(c["expr"])
        out.append(c)
    return out


REQ = ["Base.Chars", "Model.SString", "Model.Backend", "Spec.Target", "Model.Transform", "Spec.Rewrite", "Run.C12run"]
PROPERTY = Property(
    pid="C12", props_file="Props/C12.v",
    suites=[Suite("tr", gen_tr, "run_tr", REQ, "judge_tr", tr_to_coq, known=known_tr, mutate=mutate, stratum=stratum, py_oracle=py_oracle, shard=100)],
    rule="random rules (1-3 detections: maps, lists of maps, keyword lists; modifiers contains/startswith/endswith/all/cased/re/cidr/exists/"
         "windash/gt/fieldref/neq/expand/base64; one condition of depth <= 2 with and/or/not/selectors; optional fields list) x pipelines "
         "written as YAML documents: one transformation, chains of two, nested pipelines; field_name_mapping (1:1, 1:n, keyword), "
         "field_name_prefix_mapping, field_name_prefix/suffix, drop_detection_item, add_condition (template, negated, explicit/drawn name), "
         "set_value, case, map_string, replace_string, convert_type, wildcard/value placeholders, set_state x scopes (rule / detection "
         "item / field name conditions with negation); 25% identity instances (empty mapping, regex matching nothing, unknown "
         "placeholder filter, non-matching scope) + hand-written hostile cases. non-trivial = the pipeline changed the rule.",
    assumptions=["re.sub of replace_string is an oracle: the model receives its finite table on the plain forms occurring in the rule",
                 "loading of rule documents (modifiers) is the implementation's; the trees after loading are the input of model and rewrite",
                 "atoms of the two queries are identified by props/c01_pyread.py decode_atom (trusted reader); the spelling of the rewritten "
                 "document is validated per atom by reloading it (speller self-check)",
                 "condition text -> expression (name and (cond)) is C02's subject; the model produces the text, the rewrite the expression",
                 "string case mapping is exact for ASCII only; Python float parsing, query_expression_placeholders, hashes_fields, regex, "
                 "extract_fields, convert_type num, skip_special mode of replace_string are not modelled"],
)
