from sigma.rule import SigmaDetectionItem
from sigma.types import SigmaString, SigmaExpansion, SpecialChars, Placeholder


def enc_parts(parts):
    out = []
    for p in parts:
        if isinstance(p, str): out.append(["s", p])
        elif p == SpecialChars.WILDCARD_MULTI: out.append(["m"])
        elif p == SpecialChars.WILDCARD_SINGLE: out.append(["q"])
        elif isinstance(p, Placeholder): out.append(["p", p.name])
        else: out.append(["?", repr(p)])
    return out


def enc_val(v):
    if isinstance(v, SigmaString):
        try:
            b = list(bytes(v))
        except UnicodeError:
            b = None
        return {"t": "s", "parts": enc_parts(v.s), "b": b}
    if isinstance(v, SigmaExpansion):
        return {"t": "e", "l": [enc_val(x) for x in v.values]}
    return {"t": "o", "r": type(v).__name__}


def payload(p):
    return p["s"] if "s" in p else p["o"]


def run_chain(case):
    key = "f" + "".join("|" + m for m in case["mods"])
    vals = [payload(p) for p in case["payloads"]]
    it = SigmaDetectionItem.from_mapping(key, vals if len(vals) != 1 else vals[0])
    return {"vals": [enc_val(v) for v in it.value]}
