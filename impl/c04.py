from impl.excname import exc_name
from sigma.rule import SigmaDetectionItem
from sigma.types import SigmaString, SigmaExpansion, SpecialChars, Placeholder


def enc_parts(parts):
    out = []
    for p in parts:
        if isinstance(p, str): out.append(["s", p])
        elif p == SpecialChars.WILDCARD_MULTI: out.append(["m"])
        elif p == SpecialChars.WILDCARD_SINGLE: out.append(["q"])
        elif isinstance(p, Placeholder): out.append(["p", p.name])
        else: out.append(["?", repr(p)])
    return out


def enc_val(v):
    if isinstance(v, SigmaString):
        try:
            b = list(bytes(v))
        except UnicodeError:
            b = None
        return {"t": "s", "parts": enc_parts(v.s), "b": b}
    if isinstance(v, SigmaExpansion):
        return {"t": "e", "l": [enc_val(x) for x in v.values]}
    return {"t": "o", "r": type(v).__name__}


def payload(p):
    return p["s"] if "s" in p else p["o"]


def run_chain(case):
    key = "f" + "".join("|" + m for m in case["mods"])
    vals = [payload(p) for p in case["payloads"]]
    it = SigmaDetectionItem.from_mapping(key, vals if len(vals) != 1 else vals[0])
    return {"vals": [enc_val(v) for v in it.value]}


# ---- purity: the modifiers must not change the values they are applied to -------------------------
def _guard(f):
    from sigma.exceptions import SigmaError
    try:
        return f()
    except Exception as e:  # noqa
        return {"exc": exc_name(e), "sigma": isinstance(e, SigmaError), "msg": str(e)[:200]}


def run_pure(case):
    """Several observations of the same chain; each view is [mods, payloads, result] and is judged
    like a fresh application of `mods` to `payloads`."""
    from sigma.modifiers import modifier_mapping
    from sigma.types import sigma_type
    mods, pls = case["mods"], case["payloads"]
    key = "f" + "".join("|" + m for m in mods)
    vals = [payload(p) for p in pls]
    views = []

    # 1. through from_mapping; (a) original_value afterwards must still be the payloads
    box = {}
    def first():
        box["it"] = SigmaDetectionItem.from_mapping(key, vals if len(vals) != 1 else vals[0])
        return {"vals": [enc_val(v) for v in box["it"].value]}
    views.append(["first", mods, pls, _guard(first)])
    it = box.get("it")
    if it is not None:
        views.append(["original_value", [], pls, _guard(lambda: {"vals": [enc_val(v) for v in it.original_value]})])
        # (c) to_plain() and from_mapping again (not for payloads whose plain form is known not to re-parse, C05 D10)
        if not case.get("skip_roundtrip"):
            def again():
                plain = it.to_plain()
                (k, v), = plain.items()
                it2 = SigmaDetectionItem.from_mapping(k, v)
                return {"vals": [enc_val(x) for x in it2.value]}
            views.append(["to_plain_reload", mods, pls, _guard(again)])

    # (b) the same source objects used for two detection items, and twice in one value list
    classes = [modifier_mapping[m] for m in mods]
    src = [sigma_type(v) for v in vals]
    views.append(["shared_1", mods, pls, _guard(lambda: {"vals": [enc_val(v) for v in SigmaDetectionItem("f", classes, list(src)).value]})])
    views.append(["shared_2", mods, pls, _guard(lambda: {"vals": [enc_val(v) for v in SigmaDetectionItem("g", classes, list(src)).value]})])
    views.append(["sources_after", [], pls, _guard(lambda: {"vals": [enc_val(v) for v in src]})])
    src2 = [sigma_type(v) for v in vals]
    dbl = [x for x in src2 for _ in (0, 1)]
    views.append(["same_object_twice_in_list", mods, [p for p in pls for _ in (0, 1)],
                  _guard(lambda: {"vals": [enc_val(v) for v in SigmaDetectionItem("f", classes, dbl).value]})])
    # the same modifier object applied twice to the same value object
    if classes:
        src3 = [sigma_type(v) for v in vals]
        holder = SigmaDetectionItem("f", [], list(src3))
        inst = classes[0](holder, [])
        def twice():
            for x in src3:
                inst.apply(x)
            return {"vals": [enc_val(r) for x in src3 for r in inst.apply(x)]}
        views.append(["same_modifier_object_twice", mods[:1], pls, _guard(twice)])
    return {"views": views}
