"""C02 - runs sigma/conditions.py on (detection names, condition text).

Every detection i is the single atom  fld = i ; the observable results are
  parse : SigmaCondition.parse(False)      (parse tree)
  post  : SigmaCondition.parsed            (postprocessed condition tree, may contain None)
  table : value of the postprocessed tree for each of the 2^n assignments (mask order, bit i =
          detection i), or None when the tree contains a None / an error was raised.
No backend is involved."""
from impl.excname import exc_name
from sigma.rule import SigmaDetections
from sigma.exceptions import SigmaError
from sigma import conditions as C


def _exc(e):
    return {"exc": exc_name(e), "sigma": isinstance(e, SigmaError)}


def enc_parse(t):
    if isinstance(t, C.ConditionIdentifier):
        return ["id", t.identifier]
    if isinstance(t, C.ConditionSelector):
        return ["sel", t.args[0], t.pattern]
    if isinstance(t, C.ConditionNOT):
        return ["not"] + [enc_parse(a) for a in t.args]
    if isinstance(t, C.ConditionAND):
        return ["and"] + [enc_parse(a) for a in t.args]
    if isinstance(t, C.ConditionOR):
        return ["or"] + [enc_parse(a) for a in t.args]
    return ["?", type(t).__name__]


def enc_post(t):
    if t is None:
        return None
    if isinstance(t, C.ConditionFieldEqualsValueExpression):
        return ["leaf", int(t.value.number)]
    if isinstance(t, C.ConditionNOT):
        return ["not"] + [enc_post(a) for a in t.args]
    if isinstance(t, C.ConditionAND):
        return ["and"] + [enc_post(a) for a in t.args]
    if isinstance(t, C.ConditionOR):
        return ["or"] + [enc_post(a) for a in t.args]
    return ["?", type(t).__name__]


class _Undefined(Exception):
    pass


def ev(t, mask):
    if t is None:
        raise _Undefined()
    if isinstance(t, C.ConditionFieldEqualsValueExpression):
        return bool((mask >> int(t.value.number)) & 1)
    if isinstance(t, C.ConditionNOT):
        (a,) = t.args
        return not ev(a, mask)
    if isinstance(t, C.ConditionAND):
        vals = [ev(a, mask) for a in t.args]
        return all(vals)
    if isinstance(t, C.ConditionOR):
        vals = [ev(a, mask) for a in t.args]
        return any(vals)
    raise _Undefined()


def run_cond(case):
    names = case["dets"]
    d = {n: {"fld": i} for i, n in enumerate(names)}
    d["condition"] = case["s"]
    dets = SigmaDetections.from_dict(d)
    cond = dets.parsed_condition[0]
    out = {}
    try:
        out["parse"] = enc_parse(cond.parse(False))
    except Exception as e:
        out["parse"] = _exc(e)
    table = None
    try:
        post = cond.parsed
        out["post"] = {"t": enc_post(post)}
        try:
            table = [ev(post, m) for m in range(2 ** len(names))]
        except _Undefined:
            table = None
    except Exception as e:
        out["post"] = _exc(e)
    out["table"] = table
    # a second access must give the same answer (parse cache + deep copy)
    try:
        again = {"t": enc_post(cond.parsed)}
    except Exception as e:
        again = _exc(e)
    out["stable"] = again == out["post"]
    return out


# ---------------------------------------------------------------------------------------------
# histories: rule objects are parsed, changed, and parsed again
def _ev_atoms(t, on):
    """truth value of a postprocessed tree; `on` = set of atom ids that are true"""
    if t is None:
        raise _Undefined()
    if isinstance(t, C.ConditionFieldEqualsValueExpression):
        return int(t.value.number) in on
    if isinstance(t, C.ConditionNOT):
        (a,) = t.args
        return not _ev_atoms(a, on)
    if isinstance(t, C.ConditionAND):
        return all([_ev_atoms(a, on) for a in t.args])
    if isinstance(t, C.ConditionOR):
        return any([_ev_atoms(a, on) for a in t.args])
    raise _Undefined()


def run_history(case):
    """case: {"dict": [[name, atom], ...], "conds": [text, ...], "steps": [...]}.
    Every detection is the atom fld = <atom id>.  Steps act on numbered rule objects:
      ["new", k]  ["copy", src, dst]  ["add", k, name, atom]  ["remove", k, name]  ["rename", k, old, new]
      ["dadd", name, atom]  ["dremove", name]                       (the source dict of later "new" steps)
      ["parse", k, ci, mode, names]   mode "existing" (rule.detection.parsed_condition[ci]) or "fresh"
                                      (a new SigmaCondition on the same detections); names = the (name, atom) pairs
                                      the harness expects rule k to have now (mask bit i = i-th pair).
    Returns one result per parse step."""
    import copy
    from sigma.rule import SigmaRule, SigmaDetection
    from sigma.conditions import SigmaCondition
    src = {n: {"fld": a} for n, a in case["dict"]}
    conds = case["conds"]
    rules = {}
    out = []
    for st in case["steps"]:
        op = st[0]
        if op == "new":
            d = dict(src)
            d["condition"] = list(conds)
            rules[st[1]] = SigmaRule.from_dict({"title": "t", "logsource": {"category": "c"}, "detection": d})
        elif op == "copy":
            rules[st[2]] = copy.deepcopy(rules[st[1]])
        elif op == "add":
            rules[st[1]].detection.detections[st[2]] = SigmaDetection.from_definition({"fld": st[3]})
        elif op == "remove":
            del rules[st[1]].detection.detections[st[2]]
        elif op == "rename":
            dets = rules[st[1]].detection.detections
            dets[st[3]] = dets.pop(st[2])
        elif op == "dadd":
            src[st[1]] = {"fld": st[2]}
        elif op == "dremove":
            del src[st[1]]
        elif op == "parse":
            _, k, ci, mode, names = st
            rule = rules[k]
            if mode == "existing":
                cond = rule.detection.parsed_condition[ci]
            else:
                cond = SigmaCondition(conds[ci], rule.detection)
            r = {"keys": list(rule.detection.detections.keys())}
            try:
                r["parse"] = enc_parse(cond.parse(False))
            except Exception as e:
                r["parse"] = _exc(e)
            table = None
            try:
                post = cond.parsed
                r["post"] = {"t": enc_post(post)}
                try:
                    atoms = [a for _, a in names]
                    table = [_ev_atoms(post, {a for i, a in enumerate(atoms) if (m >> i) & 1})
                             for m in range(2 ** len(atoms))]
                except _Undefined:
                    table = None
            except Exception as e:
                r["post"] = _exc(e)
            r["table"] = table
            out.append(r)
        else:
            raise ValueError(op)
    return {"parses": out}
