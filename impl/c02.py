"""C02 - runs sigma/conditions.py on (detection names, condition text).

Every detection i is the single atom  fld = i ; the observable results are
  parse : SigmaCondition.parse(False)      (parse tree)
  post  : SigmaCondition.parsed            (postprocessed condition tree, may contain None)
  table : value of the postprocessed tree for each of the 2^n assignments (mask order, bit i =
          detection i), or None when the tree contains a None / an error was raised.
No backend is involved."""
from sigma.rule import SigmaDetections
from sigma.exceptions import SigmaError
from sigma import conditions as C


def _exc(e):
    return {"exc": type(e).__name__, "sigma": isinstance(e, SigmaError)}


def enc_parse(t):
    if isinstance(t, C.ConditionIdentifier):
        return ["id", t.identifier]
    if isinstance(t, C.ConditionSelector):
        return ["sel", t.args[0], t.pattern]
    if isinstance(t, C.ConditionNOT):
        return ["not"] + [enc_parse(a) for a in t.args]
    if isinstance(t, C.ConditionAND):
        return ["and"] + [enc_parse(a) for a in t.args]
    if isinstance(t, C.ConditionOR):
        return ["or"] + [enc_parse(a) for a in t.args]
    return ["?", type(t).__name__]


def enc_post(t):
    if t is None:
        return None
    if isinstance(t, C.ConditionFieldEqualsValueExpression):
        return ["leaf", int(t.value.number)]
    if isinstance(t, C.ConditionNOT):
        return ["not"] + [enc_post(a) for a in t.args]
    if isinstance(t, C.ConditionAND):
        return ["and"] + [enc_post(a) for a in t.args]
    if isinstance(t, C.ConditionOR):
        return ["or"] + [enc_post(a) for a in t.args]
    return ["?", type(t).__name__]


class _Undefined(Exception):
    pass


def ev(t, mask):
    if t is None:
        raise _Undefined()
    if isinstance(t, C.ConditionFieldEqualsValueExpression):
        return bool((mask >> int(t.value.number)) & 1)
    if isinstance(t, C.ConditionNOT):
        (a,) = t.args
        return not ev(a, mask)
    if isinstance(t, C.ConditionAND):
        vals = [ev(a, mask) for a in t.args]
        return all(vals)
    if isinstance(t, C.ConditionOR):
        vals = [ev(a, mask) for a in t.args]
        return any(vals)
    raise _Undefined()


def run_cond(case):
    names = case["dets"]
    d = {n: {"fld": i} for i, n in enumerate(names)}
    d["condition"] = case["s"]
    dets = SigmaDetections.from_dict(d)
    cond = dets.parsed_condition[0]
    out = {}
    try:
        out["parse"] = enc_parse(cond.parse(False))
    except Exception as e:
        out["parse"] = _exc(e)
    table = None
    try:
        post = cond.parsed
        out["post"] = {"t": enc_post(post)}
        try:
            table = [ev(post, m) for m in range(2 ** len(names))]
        except _Undefined:
            table = None
    except Exception as e:
        out["post"] = _exc(e)
    out["table"] = table
    # a second access must give the same answer (parse cache + deep copy)
    try:
        again = {"t": enc_post(cond.parsed)}
    except Exception as e:
        again = _exc(e)
    out["stable"] = again == out["post"]
    return out
