"""Implementation side of C10: a TextQueryBackend subclass whose correlation templates are
delimiter-structured (every element is  <tag|content>  with the brackets U+27E8 / U+27E9), so that a
correlation query parses back into its elements; conversion of a generated rule collection; and the
stand-alone conversion of every referenced rule (the "query that rule converts to on its own")."""
from impl.excname import exc_name
import copy
from sigma.collection import SigmaCollection
from sigma.correlations import (SigmaCorrelationRule, SigmaRuleReference, CorrelationConditionAND,
                                CorrelationConditionOR, CorrelationConditionNOT, SigmaExtendedCorrelationCondition)
from sigma.processing.pipeline import ProcessingPipeline, ProcessingItem, QueryPostprocessingItem
from sigma.processing.postprocessing import EmbedQueryTransformation
from sigma.processing.transformations import (FieldMappingTransformation, AddFieldnamePrefixTransformation,
                                              AddFieldnameSuffixTransformation, FieldPrefixMappingTransformation)
from sigma.processing.conditions import LogsourceCondition
from impl.c01 import make_backend as make_base_backend

LB, RB = "⟨", "⟩"


def el(tag, body):
    return LB + tag + "|" + body + RB


TYPES = ["event_count", "value_count", "temporal", "temporal_ordered", "value_sum", "value_avg",
         "value_percentile", "value_median"]
CTYPES = TYPES + ["temporal_extended", "temporal_ordered_extended"]
TS_MAP = {"s": "sec", "m": "min", "h": "hrs", "M": "mon"}     # deliberately incomplete: d, w, y pass through

BASE = {"prec": ["not", "and", "or"], "parenthesize": False, "or_in": False, "and_in": False, "in_wild": False,
        "not_eq": False, "explicit_not_exists": True, "cidr_native": True, "startswith": True, "endswith": True,
        "contains": True, "wildmatch": False, "allow_special": False, "cs_variants": False, "sep": " "}
_n = [0]


def make_backend(k):
    base = make_base_backend(dict(BASE, prec=k["prec"], parenthesize=k["parenthesize"]))
    frame = "{search}{typing}" + el("ts", "{timespan}") + "{aggregate}{condition}" + el("g", "{groupby}")
    attrs = dict(
        correlation_methods={"v": "verification"}, default_correlation_method="v",
        default_correlation_query={"v": el("Q.default", frame)},
        correlation_search_single_rule_expression=(el("S1", el("q", "{query}") + el("n", "{normalization}"))
                                                   if k["single"] else None),
        correlation_search_multi_rule_expression=el("SM", "{queries}"),
        correlation_search_multi_rule_query_expression=el("r", el("id", "{ruleid}") + el("q", "{query}") + el("n", "{normalization}")),
        correlation_search_multi_rule_query_expression_joiner="",
        correlation_search_field_normalization_expression=(el("a", el("al", "{alias}") + el("f", "{field}")) if k["norm"] else None),
        correlation_search_field_normalization_expression_joiner="" if k["norm"] else None,
        typing_expression=el("TY", "{queries}") if k["typing"] else None,
        typing_rule_query_expression=el("t", el("id", "{ruleid}") + el("q", "{query}")) if k["typing"] else None,
        typing_rule_query_expression_joiner="" if k["typing"] else None,
        timespan_seconds=(k["ts"] == "seconds"),
        timespan_mapping=dict(TS_MAP) if k["ts"] == "map" else None,
        referenced_rules_expression={"v": el("rid", "{ruleid}")},
        referenced_rules_expression_joiner={"v": ""},
        groupby_expression={"v": el("G", "{fields}")},
        groupby_field_expression={"v": el("gf", "{field}")},
        groupby_field_expression_joiner={"v": ""},
        groupby_expression_nofield={"v": el("G0", "")} if k["nofield"] else None,
        correlation_fields_expression={"v": el("F", "{fields}")} if k["fields"] else None,
        correlation_fields_field_expression={"v": el("ff", "{field}")} if k["fields"] else None,
        correlation_fields_field_expression_joiner={"v": ""} if k["fields"] else None,
        extended_correlation_condition_rule_reference_expression={"v": el("ref", "{ruleid}")},
        finalize_correlation_subqueries=k["finalize"],
    )
    for ct in CTYPES:
        attrs[ct + "_correlation_query"] = {"v": el("Q." + ct, frame)} if k["own_frame"] else None
        attrs[ct + "_aggregation_expression"] = {"v": el("A." + ct, el("ts", "{timespan}") + el("fld", "{field}") + el("pct", "{percentile}")
                                                         + el("rr", "{referenced_rules}") + el("fs", "{fields}") + el("g", "{groupby}"))}
        if ct.endswith("extended"):
            attrs[ct + "_condition_expression"] = {"v": el("C." + ct, el("x", "{extended_condition}") + el("rr", "{referenced_rules}"))}
        else:
            attrs[ct + "_condition_expression"] = {"v": el("C." + ct, el("op", "{op}") + el("cnt", "{count}") + el("fld", "{field}")
                                                           + el("rr", "{referenced_rules}"))}

    def finalize_query_default(self, rule, query, index, state):
        return "F:" + query + ":F"
    attrs["finalize_query_default"] = finalize_query_default
    _n[0] += 1
    return type(f"VCorrBackend{_n[0]}", (base,), attrs)


def make_pipeline(k, items):
    pis = []
    for it in items:
        kind = it["kind"]
        if kind == "map":
            t = FieldMappingTransformation({a: (b[0] if len(b) == 1 and not it.get("aslist") else list(b)) for a, b in it["map"]})
        elif kind == "prefix":
            t = AddFieldnamePrefixTransformation(it["s"])
        elif kind == "suffix":
            t = AddFieldnameSuffixTransformation(it["s"])
        else:
            raise ValueError(kind)
        conds = []
        if it.get("category") is not None:
            conds = [LogsourceCondition(category=it["category"])]
        pis.append(ProcessingItem(t, rule_conditions=conds))
    post = []
    if k["post"]:
        post = [QueryPostprocessingItem(EmbedQueryTransformation(prefix="P:", suffix=":P"))]
    return ProcessingPipeline(pis, postprocessing_items=post)


def ser_xtree(t):
    if isinstance(t, SigmaRuleReference):
        return ["ref", t.reference]
    if isinstance(t, CorrelationConditionAND):
        return ["and", [ser_xtree(a) for a in t.args]]
    if isinstance(t, CorrelationConditionOR):
        return ["or", [ser_xtree(a) for a in t.args]]
    if isinstance(t, CorrelationConditionNOT):
        return ["not", [ser_xtree(a) for a in t.args]]
    return ["unknown", type(t).__name__]


def convert_all(k, items, docs):
    backend = make_backend(k)(make_pipeline(k, items))
    coll = SigmaCollection.from_dicts(copy.deepcopy(docs))
    out = backend.convert(coll)
    return backend, coll, out


def deps_of(docs, i):
    """indices of the documents the i-th document (transitively) references, in document order, then i"""
    def key(d):
        return [x for x in (d.get("name"), d.get("id")) if x]
    need, todo = {i}, [i]
    while todo:
        d = docs[todo.pop()]
        refs = []
        c = d.get("correlation")
        if c:
            r = c.get("rules")
            refs = [r] if isinstance(r, str) else list(r or [])
            if not refs and isinstance(c.get("condition"), str):
                refs = SigmaExtendedCorrelationCondition(c["condition"]).get_referenced_rules()
        for ref in refs:
            for j, e in enumerate(docs):
                if ref in key(e) or ref.replace("-", "") in [x.replace("-", "") for x in key(e)]:
                    if j not in need:
                        need.add(j)
                        todo.append(j)
    return sorted(need)


def run_corr(case):
    k, items, docs = case["k"], case["pipe"], case["docs"]
    res = {}
    # 1. every referenced document converted on its own (with the documents it needs itself)
    own = []
    for i in range(len(docs) - 1):
        sub = deps_of(docs, i)
        try:
            b, coll, out = convert_all(k, items, [docs[j] for j in sub])
            target = [r for r in coll.rules if r.title == docs[i]["title"]][0]
            own.append({"ok": list(target.get_conversion_result()), "fields": list(target.fields)})
        except Exception as e:  # noqa
            own.append({"exc": exc_name(e)})
    res["own"] = own
    # 2. the whole collection; the rule under test is the last document
    try:
        b, coll, out = convert_all(k, items, docs)
    except Exception as e:  # noqa
        from sigma.exceptions import SigmaError
        res["err"] = {"exc": exc_name(e), "sigma": isinstance(e, SigmaError), "msg": str(e)[:200]}
        return res
    target = [r for r in coll.rules if r.title == docs[-1]["title"]][0]
    res["q"] = list(target.get_conversion_result())
    res["out"] = list(out)
    cond = target.condition
    res["xtree"] = ser_xtree(cond.parsed) if isinstance(cond, SigmaExtendedCorrelationCondition) else None
    res["refs"] = [[r.reference, r.rule.name, None if r.rule.id is None else str(r.rule.id), isinstance(r.rule, SigmaCorrelationRule)]
                   for r in target.referenced_rules]
    return res


def _describe(target):
    cond = target.condition
    return {"q": list(target.get_conversion_result()),
            "xtree": ser_xtree(cond.parsed) if isinstance(cond, SigmaExtendedCorrelationCondition) else None,
            "refs": [[r.reference, r.rule.name, None if r.rule.id is None else str(r.rule.id), isinstance(r.rule, SigmaCorrelationRule)]
                     for r in target.referenced_rules]}


def run_multi(case):
    """Several correlation rules ("tops") over the same documents, converted through ONE backend / pipeline object:
    mode "one": one collection holding all tops in the given order, one convert() call;
    mode "consecutive": one convert() call per top, in the given order, on the same backend object.
    Returns one run_corr-shaped result per top (index = position in case["tops"])."""
    from sigma.exceptions import SigmaError
    k, items, docs, tops = case["k"], case["pipe"], case["docs"], case["tops"]
    own = []
    for i in range(len(docs)):
        sub = deps_of(docs, i)
        try:
            b, coll, out = convert_all(k, items, [docs[j] for j in sub])
            target = [r for r in coll.rules if r.title == docs[i]["title"]][0]
            own.append({"ok": list(target.get_conversion_result()), "fields": list(target.fields)})
        except Exception as e:  # noqa
            own.append({"exc": exc_name(e)})
    res = [dict(own=own) for _ in tops]
    backend = make_backend(k)(make_pipeline(k, items))
    if case["mode"] == "one":
        # one failing rule aborts the conversion of the whole rule set (no error collection here; that is C08's
        # subject): such rule sets say nothing about the other rules and are skipped (counted)
        for t in tops:
            try:
                convert_all(k, items, docs + [t])
            except Exception as e:  # noqa
                return {"skip": "a correlation rule of the set fails on its own: " + exc_name(e)}
        try:
            coll = SigmaCollection.from_dicts(copy.deepcopy(docs + [tops[i] for i in case["order"]]))
            backend.convert(coll)
            for i, t in enumerate(tops):
                target = [r for r in coll.rules if r.title == t["title"]][0]
                res[i].update(_describe(target))
        except Exception as e:  # noqa
            for r in res:
                r["err"] = {"exc": exc_name(e), "sigma": isinstance(e, SigmaError), "msg": str(e)[:200]}
    else:
        for i in case["order"]:
            try:
                coll = SigmaCollection.from_dicts(copy.deepcopy(docs + [tops[i]]))
                backend.convert(coll)
                target = [r for r in coll.rules if r.title == tops[i]["title"]][0]
                res[i].update(_describe(target))
            except Exception as e:  # noqa
                res[i]["err"] = {"exc": exc_name(e), "sigma": isinstance(e, SigmaError), "msg": str(e)[:200]}
    return res


def run_ts(case):
    from sigma.correlations import SigmaCorrelationTimespan
    t = SigmaCorrelationTimespan(case["spec"])
    return {"count": t.count, "unit": t.unit, "seconds": t.seconds}
