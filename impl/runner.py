"""Runs inside /venv/bin/python with PYTHONPATH=/repo:/verif: applies impl.<pid>.<func> to every
JSON case on stdin; prints 'R <json>' per case. Exceptions become {"exc": class, "sigma": bool}."""
from impl.excname import exc_name
import sys, json, importlib

def main():
    pid, func = sys.argv[1], sys.argv[2]
    mod = importlib.import_module("impl." + pid.lower())
    f = getattr(mod, func)
    from sigma.exceptions import SigmaError
    out = sys.stdout
    for line in sys.stdin:
        line = line.strip()
        if not line:
            continue
        case = json.loads(line)
        try:
            r = f(case)
        except BaseException as e:  # noqa
            if isinstance(e, (KeyboardInterrupt, SystemExit, MemoryError)):
                raise
            r = {"exc": exc_name(e), "sigma": isinstance(e, SigmaError), "msg": str(e)[:200]}
        out.write("R " + json.dumps(r) + "\n")
    out.flush()

main()
