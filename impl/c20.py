"""Implementation side of C20 (determinism across processes).

Three roles, all executed by /venv/bin/python against the repo working tree:

* `python impl/c20.py --driver <corpus.json> <random seed>`: the identical driver script of the
  process-level check.  Converts every corpus entry (rules + filters stream, pipelines, validators)
  and prints one JSON line per entry: canonical output record + its sha256.  PYTHONHASHSEED comes
  from the environment, the seed of the `random` module from argv.
* `python impl/c20.py --worker`: line-oriented worker used by `run_site`: evaluates one *site* input
  (the places where a set or a random draw can reach output) and prints the observable result.
* `run_site(case)`: called by impl/runner.py; sends the case to a pool of workers started with
  different PYTHONHASHSEED values and different random seeds and returns all their answers.
"""
from impl.excname import exc_name
import hashlib, json, os, re, subprocess, sys

HASHSEEDS = ["0", "1", "2", "3"]          # workers of the site suite
ID_RE = re.compile(r"_(cond|filt)_[a-z]{10}")


# ------------------------------------------------------------------------------------------
# process-level driver
# ------------------------------------------------------------------------------------------
def _err(title, e):
    return [title, exc_name(e), str(e)]


def convert_entry(entry):
    from functools import reduce
    from sigma.collection import SigmaCollection
    from sigma.processing.pipeline import ProcessingPipeline
    from sigma.backends.test import TextQueryTestBackend
    out = {"queries": [], "errors": [], "issues": [], "tracking": [], "names": []}
    try:
        pls = [ProcessingPipeline.from_yaml(p) for p in entry.get("pipelines", [])]
        pipeline = reduce(lambda a, b: a + b, sorted(pls, key=lambda p: p.priority)) if pls else None
        if pipeline is not None:
            def names(items):
                for it in items:
                    t = it.transformation
                    if type(t).__name__ == "AddConditionTransformation":
                        out["names"].append(t.name)
                    if hasattr(t, "_nested_pipeline") and t._nested_pipeline is not None:
                        names(t._nested_pipeline.items)
            names(pipeline.items)
        backend = TextQueryTestBackend(pipeline, collect_errors=True, **entry.get("backend", {}))
        coll = SigmaCollection.from_yaml(entry["docs"], collect_errors=True)
        for e in coll.errors:
            out["errors"].append(_err("<collection>", e))
        for r in coll.rules:
            for e in r.errors:
                out["errors"].append(_err(str(r.title), e))
        # filters applied to the loaded collection in separate apply_filters calls; under plan "each" the random
        # module is put into the same state before every call (adversarial draw sequence: the same draw comes first)
        if entry.get("filters_separate"):
            import random
            from sigma.filters import SigmaFilter
            for fdoc in entry["filters_separate"]:
                fobj = SigmaFilter.from_yaml(fdoc)
                if DRIVER_PLAN["plan"] == "each":
                    random.seed(DRIVER_PLAN["rseed"])
                coll.apply_filters([fobj])
        # rules that failed to load are reported above and left out of the conversion (as a front end would)
        coll.rules = [r for r in coll.rules if not r.errors]
        if entry.get("validators") is not None:
            try:
                from sigma.validation import SigmaValidator
                from sigma.plugins import InstalledSigmaPlugins
                vals = InstalledSigmaPlugins.autodiscover().validators
                v = SigmaValidator.from_dict(entry["validators"], vals)
                for i in v.validate_rules(coll.rules):
                    # set-valued issue attributes are unordered by type: canonical (sorted) rendering
                    extra = {k: (sorted(str(y) for y in x) if isinstance(x, (set, frozenset)) else str(x))
                             for k, x in vars(i).items() if k != "rules"}
                    out["issues"].append([type(i).__name__, [str(r.title) for r in i.rules], extra])
            except BaseException as e:  # noqa
                if isinstance(e, (KeyboardInterrupt, SystemExit, MemoryError)):
                    raise
                out["errors"].append(_err("<validators>", e))
        fmt = entry.get("format", "default")
        try:
            res = backend.convert(coll, fmt)
            out["queries"] = [str(q) for q in res] if isinstance(res, list) else [repr(res)]
        except BaseException as e:  # noqa
            if isinstance(e, (KeyboardInterrupt, SystemExit, MemoryError)):
                raise
            # the whole conversion was aborted (C07/C08 territory): record it, then convert rule by rule
            out["errors"].append(_err("<convert>", e))
            for r in coll.rules:
                try:
                    out["queries"] += [str(r.title) + ": " + str(q) for q in backend.convert_rule(r, fmt)]
                except BaseException as e2:  # noqa
                    if isinstance(e2, (KeyboardInterrupt, SystemExit, MemoryError)):
                        raise
                    out["errors"].append(_err(str(r.title), e2))
        for r, e in backend.errors:
            out["errors"].append(_err(str(r.title), e))
        # serialisation of the converted rules: its error records name detection items
        for r in coll.rules:
            try:
                r.to_dict()
            except BaseException as e:  # noqa
                if isinstance(e, (KeyboardInterrupt, SystemExit, MemoryError)):
                    raise
                out["errors"].append(_err("<to_dict> " + str(r.title), e))
        for r in coll.rules:
            det = getattr(r, "detection", None)
            if det is not None:
                for k in det.detections:
                    m = ID_RE.match(str(k))
                    if m and m.group(0) not in out["names"]:
                        out["names"].append(m.group(0))
        lp = getattr(backend, "last_processing_pipeline", None)
        if lp is not None:
            out["tracking"] = sorted([str(k), sorted(str(x) for x in v)] for k, v in lp.field_mappings.items())
    except BaseException as e:  # noqa
        if isinstance(e, (KeyboardInterrupt, SystemExit, MemoryError)):
            raise
        out["errors"].append(_err("<top>", e))
    return out


DRIVER_PLAN = {"plan": "once", "rseed": 0}


def driver_main(path, rseed, plan="once"):
    import random
    DRIVER_PLAN.update(plan=plan, rseed=rseed * 1000003 + 17)
    corpus = json.load(open(path))
    w = sys.stdout
    for entry in corpus:
        random.seed(rseed * 1000003 + 17)      # same draw sequence for every entry of a run
        out = convert_entry(entry)
        names = out.pop("names")
        sha = hashlib.sha256(json.dumps(out, sort_keys=True).encode()).hexdigest()
        w.write("R " + json.dumps({"id": entry["id"], "sha": sha, "out": out, "names": names}) + "\n")
    w.flush()


# ------------------------------------------------------------------------------------------
# site level
# ------------------------------------------------------------------------------------------
RULE_HEAD = "title: T\nid: 5013332f-8a70-4a04-bcc1-06a98a2cca2e\nlogsource: {category: test}\n"


def _convert(docs, pipeline_yaml=None):
    from sigma.collection import SigmaCollection
    from sigma.processing.pipeline import ProcessingPipeline
    from sigma.backends.test import TextQueryTestBackend
    b = TextQueryTestBackend(ProcessingPipeline.from_yaml(pipeline_yaml) if pipeline_yaml else None)
    return b, b.convert(SigmaCollection.from_yaml(docs))


def _sigma(e):
    from sigma.exceptions import SigmaError
    return {"exc": exc_name(e), "sigma": isinstance(e, SigmaError), "msg": str(e)}


def cond_str(c, top=True):
    """condition syntax tree ["id", n] | ["sel", all?, pat] | ["not", c] | ["bin", and?, a, b] -> condition text,
    binary operators fully parenthesised so that the parser reproduces the tree"""
    k = c[0]
    if k == "id":
        return c[1]
    if k == "sel":
        return ("all of " if c[1] else "1 of ") + c[2]
    if k == "not":
        inner = c[1]
        s = cond_str(inner, False)
        return "not " + (s if inner[0] in ("id", "bin") else "(" + s + ")")
    s = cond_str(c[2], False) + (" and " if c[1] else " or ") + cond_str(c[3], False)
    return s if top else "(" + s + ")"


def _tree(c):
    from sigma.conditions import ConditionAND, ConditionOR, ConditionNOT, ConditionFieldEqualsValueExpression
    if c is None:
        return ["none"]
    if isinstance(c, ConditionFieldEqualsValueExpression):
        return ["atom", str(c.value)]
    if isinstance(c, ConditionNOT):
        return ["not", _tree(c.args[0])]
    if isinstance(c, ConditionAND):
        return ["and", [_tree(a) for a in c.args]]
    if isinstance(c, ConditionOR):
        return ["or", [_tree(a) for a in c.args]]
    return ["?", type(c).__name__]


def _fields(det):
    from sigma.rule import SigmaDetection
    out = []
    for it in det.detection_items:
        if isinstance(it, SigmaDetection):
            out += _fields(it)
        else:
            out.append(str(it.field))
    return out


# ---- instrumentation of the draws (observation + scripted adversarial draws) -------------------------------
import random
APPS = []        # one record per SigmaFilter.apply_on_rule that renamed detections: draws consumed, prefix chosen
SCRIPT = []      # scripted results of the next random.choices calls (adversarial draw sequences); empty: real draws
_DRAWS = []
_instrumented = []


def _instrument():
    """random.choices is wrapped (logs every draw, serves scripted draws first); SigmaFilter.apply_on_rule is wrapped
    to record which draws one application consumed and which prefix the new detection names carry."""
    if _instrumented:
        return
    _instrumented.append(1)
    real_choices = random.choices

    def choices(population, *a, **kw):
        r = SCRIPT.pop(0) if SCRIPT else real_choices(population, *a, **kw)
        _DRAWS.append("".join(r))
        return r
    random.choices = choices
    from sigma.filters import SigmaFilter
    real_apply = SigmaFilter.apply_on_rule

    def apply_on_rule(self, rule):
        det = getattr(rule, "detection", None)
        before = list(det.detections) if det is not None else []
        n0 = len(_DRAWS)
        res = real_apply(self, rule)
        if det is not None:
            new = [k for k in rule.detection.detections if k not in before]
            own = [str(k) for k in self.filter.detections]
            if new and own:
                k0 = str(new[0])
                pre = k0[:len(k0) - len(own[0]) - 1] if k0.endswith("_" + own[0]) else k0
                APPS.append({"draws": ["_filt_" + d for d in _DRAWS[n0:]], "prefix": pre})
        return res
    SigmaFilter.apply_on_rule = apply_on_rule


def site(case):
    """Evaluate one site input in this process.  Result: {"ok": text} | {"err": message}."""
    import yaml
    k = case["k"]
    try:
        if k == "strict":
            # rule with the given detection fields; pipeline = list of 1:n field mappings, then the strict check
            sas = case.get("single_as_str")
            items = [{"type": "field_name_mapping",
                      "mapping": {f: (t[0] if sas and len(t) == 1 else t) for f, t in m.items()}} for m in case["maps"]]
            if case.get("nested"):
                items = [{"type": "nest", "items": items}]
            items.append({"type": "strict_field_mapping_failure"})
            pl = yaml.safe_dump({"name": "p", "priority": 10, "transformations": items}, allow_unicode=True)
            dets = {f"d{i}": [{f: "v"} for f in fs] for i, fs in enumerate(case["dets"])}
            dets["condition"] = "1 of d*"
            docs = RULE_HEAD + yaml.safe_dump({"detection": dets}, sort_keys=False, allow_unicode=True)
            from sigma.collection import SigmaCollection
            from sigma.processing.pipeline import ProcessingPipeline
            from sigma.backends.test import TextQueryTestBackend
            b = TextQueryTestBackend(ProcessingPipeline.from_yaml(pl))
            coll = SigmaCollection.from_yaml(docs)
            q = b.convert(coll)
            fm = b.last_processing_pipeline.field_mappings
            return {"ok": q[0], "fields": [_fields(d) for d in coll.rules[0].detection.detections.values()],
                    "fm": [[str(a), sorted(map(str, v))] for a, v in fm.items()],
                    "tf": sorted([str(a), sorted(map(str, v))] for a, v in fm.target_fields.items())}
        if k == "unref":
            conds = {n: {"type": "logsource", "category": "test"} for n in case["conds"]}
            pl = yaml.safe_dump({"name": "p", "priority": 10, "transformations": [
                {"type": "field_name_mapping", "mapping": {"zz": "yy"}, "rule_cond_expr": case["expr"],
                 "rule_conditions": conds}]}, sort_keys=False)
            from sigma.processing.pipeline import ProcessingItem
            ProcessingItem.from_dict(yaml.safe_load(pl)["transformations"][0])
            return {"ok": ""}
        if k == "corr":
            from sigma.correlations import SigmaCorrelationCondition
            SigmaCorrelationCondition.from_dict({x: 1 for x in case["keys"]})
            return {"ok": ""}
        if k == "corrd":
            from sigma.correlations import SigmaCorrelationCondition
            c = SigmaCorrelationCondition.from_dict({kk: v for kk, v in case["items"]})
            return {"ok": f"{c.op.name.lower()} {c.count}"}
        if k == "flags":
            from sigma.types import SigmaRegularExpression, SigmaRegularExpressionFlag as F
            fl = {"i": F.IGNORECASE, "m": F.MULTILINE, "s": F.DOTALL}
            r = SigmaRegularExpression("a.b", set())
            for c in case["flags"]:
                r.add_flag(fl[c])
            r.compile()
            mods = "".join("|" + c for c in case["flags"])
            docs = RULE_HEAD + yaml.safe_dump({"detection": {"sel": {"f|re" + mods: "a.b"}, "condition": "sel"}})
            b, q = _convert(docs)
            return {"ok": r.escape(("/",)) + "\n" + q[0]}
        if k == "names":
            # rule detections d<i> with one item x=<i>, rule condition given; add_condition items; filters
            items = [{"type": "add_condition", "conditions": {"c": f"a{j}"}, "negated": bool(neg)}
                     for j, neg in enumerate(case["adds"])]
            pl = yaml.safe_dump({"name": "p", "priority": 10, "transformations": items}) if items else None
            dets = {n: {"x": n} for n in case["dets"]}
            dets["condition"] = cond_str(case["cond"])
            docs = RULE_HEAD + yaml.safe_dump({"detection": dets}, sort_keys=False, allow_unicode=True)
            for fi, f in enumerate(case["filters"]):
                fd = {n: {"y": f"f{fi}{n}"} for n in f["dets"]}
                fd["rules"] = ["5013332f-8a70-4a04-bcc1-06a98a2cca2e"]
                fd["condition"] = cond_str(f["cond"])
                docs += "---\n" + yaml.safe_dump({"title": "F", "logsource": {"category": "test"}, "filter": fd},
                                                 sort_keys=False)
            from sigma.collection import SigmaCollection
            from sigma.filters import SigmaFilter
            from sigma.processing.pipeline import ProcessingPipeline
            from sigma.backends.test import TextQueryTestBackend
            plan = case.get("_plan") or {}
            mode = case.get("mode", "stream")
            _instrument()
            del APPS[:]
            SCRIPT[:] = [list(x) for x in plan.get("cond_script", [])]
            p = ProcessingPipeline.from_yaml(pl) if pl else None
            b = TextQueryTestBackend(p)
            SCRIPT[:] = [list(x) for x in plan.get("script", [])]
            if mode == "stream":            # filters are documents of the rule stream
                coll = SigmaCollection.from_yaml(docs)
            else:
                parts = docs.split("---\n")
                coll = SigmaCollection.from_yaml(parts[0])
                fobjs = [SigmaFilter.from_yaml(d) for d in parts[1:]]
                if mode == "one_call":
                    if plan.get("reseed") is not None:
                        random.seed(plan["reseed"])
                    coll.apply_filters(fobjs)
                else:                       # one apply_filters call per filter
                    for fo in fobjs:
                        if plan.get("reseed") is not None:
                            random.seed(plan["reseed"])     # the random module in the same state before each application
                        coll.apply_filters([fo])
            SCRIPT[:] = []
            cnames = [it.transformation.name for it in p.items] if p else []
            fnames = [a["prefix"] for a in APPS]
            fdraws = [a["draws"] for a in APPS]
            try:
                q = b.convert(coll)
            except BaseException as e:  # noqa
                m = re.fullmatch(r"Detection '(.*)' not defined in detections", str(e.args[0]) if e.args else "")
                if m is None:
                    raise
                return {"undef": m.group(1), "cnames": cnames, "fnames": fnames, "fdraws": fdraws}
            tree = _tree(coll.rules[0].detection.parsed_condition[0].parsed)
            return {"ok": q[0] if q else "", "tree": tree, "cnames": cnames, "fnames": fnames, "fdraws": fdraws}
        if k == "tracking":
            from sigma.processing.tracking import FieldMappingTracking
            t = FieldMappingTracking()
            for op in case["ops"]:
                if op[0] == "add":
                    t.add_mapping(op[1], op[2] if len(op[2]) != 1 else op[2][0])
                else:
                    o = FieldMappingTracking()
                    for s, tg in op[1]:
                        o.add_mapping(s, tg)
                    t.merge(o)
            fm = [[str(a), sorted(map(str, b))] for a, b in t.items()]          # dict order (insertion) is part of the observable
            tf = sorted([str(a), sorted(map(str, b))] for a, b in t.target_fields.items())
            return {"ok": json.dumps([fm, tf])}
        if k == "dangling":
            from sigma.collection import SigmaCollection
            from sigma.validation import SigmaValidator
            from sigma.validators.core.condition import DanglingDetectionValidator
            dets = {n: {"x": n} for n in case["dets"]}
            dets["condition"] = " or ".join(case["refs"])
            docs = "title: T\nlogsource: {category: test}\n" + yaml.safe_dump({"detection": dets}, sort_keys=False,
                                                                               allow_unicode=True)
            coll = SigmaCollection.from_yaml(docs)
            v = SigmaValidator([DanglingDetectionValidator])
            res = [type(i).__name__ + ":" + str(i.detection_name) for i in v.validate_rules(coll.rules)]
            return {"ok": "\n".join(res)}
        return {"err": "unknown site"}
    except BaseException as e:  # noqa
        if isinstance(e, (KeyboardInterrupt, SystemExit, MemoryError)):
            raise
        from sigma.exceptions import SigmaError
        return {"err": str(e.args[0]) if e.args else str(e), "cls": exc_name(e), "sigma": isinstance(e, SigmaError)}


def worker_main():
    import random
    for line in sys.stdin:
        line = line.strip()
        if not line:
            continue
        req = json.loads(line)
        random.seed(req["rseed"])
        case = req["case"]
        if case.get("plans"):
            case = dict(case, _plan=case["plans"][req["n"] % len(case["plans"])])
        sys.stdout.write("W " + json.dumps(site(case)) + "\n")
        sys.stdout.flush()


_pool = []


def _workers():
    if not _pool:
        for hs in HASHSEEDS:
            env = dict(os.environ)
            env["PYTHONHASHSEED"] = hs
            p = subprocess.Popen([sys.executable, os.path.abspath(__file__), "--worker"], stdin=subprocess.PIPE,
                                 stdout=subprocess.PIPE, text=True, env=env, bufsize=1)
            _pool.append((hs, p))
    return _pool


def run_site(case):
    """All workers (one per PYTHONHASHSEED) evaluate the case, each under its own seed of `random`."""
    res = []
    ws = _workers()
    for n, (hs, p) in enumerate(ws):
        p.stdin.write(json.dumps({"rseed": case.get("rseed", 0) * 7 + n, "n": n, "case": case}) + "\n")
        p.stdin.flush()
    for hs, p in ws:
        while True:
            line = p.stdout.readline()
            if not line:
                raise RuntimeError("site worker died")
            if line.startswith("W "):
                res.append(json.loads(line[2:]))
                break
    return {"runs": res}


if __name__ == "__main__":
    if sys.argv[1] == "--driver":
        driver_main(sys.argv[2], int(sys.argv[3]), sys.argv[4] if len(sys.argv) > 4 else "once")
    elif sys.argv[1] == "--worker":
        worker_main()
