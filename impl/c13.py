"""Runs a generated pipeline on a generated rule with the real code and reports, per processing item,
what the rule / detection items / field names / bookkeeping look like after it."""
from impl.excname import exc_name
import re
from sigma.rule import SigmaRule, SigmaDetection, SigmaDetectionItem
from sigma.processing.pipeline import ProcessingPipeline
from sigma.processing.condition_expressions import (
    parse_condition_expression, ConditionIdentifier, ConditionNOT, ConditionAND, ConditionOR)
from sigma.exceptions import SigmaError
from sigma.types import (SigmaString, SigmaNumber, SigmaBool, SigmaNull, SigmaFieldReference,
                         SigmaRegularExpression)

ERR = [("SigmaPipelineConditionError", 11), ("SigmaConfigurationError", 11), ("SigmaLogsourceError", 13),
       ("SigmaRegularExpressionError", 5), ("SigmaTypeError", 3), ("SigmaValueError", 1),
       ("SigmaError", 99), ("TypeError", 2), ("KeyError", 4), ("AttributeError", 5), ("IndexError", 6)]

def err(e):
    names = [c.__name__ for c in type(e).__mro__]
    for n, t in ERR:
        if n in names:
            return [t, isinstance(e, SigmaError), exc_name(e), str(e)[:160]]
    return [98, isinstance(e, SigmaError), exc_name(e), str(e)[:160]]

# ---------------------------------------------------------------------------------------
def rx_text(p):
    out = ""
    for a in p:
        if isinstance(a, list): out += re.escape(a[1])
        elif a == "any": out += "."
        elif a == "d": out += "\\d"
        elif a == "star": out += ".*"
        elif a == "end": out += "$"
        elif a == "bad": out += "("
    return out

def cond_dict(c):
    t = c["t"]
    d = {"type": t}
    for k, v in c.items():
        if k in ("t",): continue
        if k == "pattern": d[k] = rx_text(v)
        elif k == "patterns": d["fields"] = [rx_text(p) for p in v]; d["mode"] = "re"
        else: d[k] = v
    return d

def group_keys(d, prefix, g):
    conds = [(k, cond_dict(c)) for k, c in g["conds"]]
    if g["form"] == "map":
        d[prefix + "_conditions"] = {k: c for k, c in conds}
    elif conds or g.get("explicit"):
        d[prefix + "_conditions"] = [c for _, c in conds]
    if g["link"] is not None: d[prefix + "_cond_op"] = g["link"]
    if g["expr"] is not None: d[prefix + "_cond_expr"] = g["expr"]
    if g["neg"]: d[prefix + "_cond_not"] = True

def item_dict(it):
    d = {"id": it["id"]}
    d.update(it["tr"])
    group_keys(d, "rule", it["rule"])
    group_keys(d, "detection_item", it["det"])
    group_keys(d, "field_name", it["field"])
    return d

def leaf_def(l):
    field, mod, vals = l
    return (field + "|" + mod if mod else field), list(vals)

def det_def(t):
    """tree as generated: {"map": [leaf...]} | {"list": [tree...]} | {"kw": [values]}"""
    if "map" in t:
        return {k: v for k, v in (leaf_def(l) for l in t["map"])}
    if "kw" in t:
        return list(t["kw"])
    return [det_def(x) for x in t["list"]]

def rule_dict(r):
    d = {"title": r["title"], "logsource": {k: v for k, v in zip(("category", "product", "service"), r["ls"]) if v is not None}}
    for k in ("id", "status", "level", "date", "author"):
        if r.get(k) is not None: d[k] = r[k]
    if r["tags"]: d["tags"] = list(r["tags"])
    if r["fields"]: d["fields"] = list(r["fields"])
    det = {name: det_def(t) for name, t in r["dets"]}
    det["condition"] = " or ".join(name for name, _ in r["dets"])
    d["detection"] = det
    for k, v in r["custom"]:
        d[k] = v
    return d

# ---------------------------------------------------------------------------------------
def enc_val(v):
    if isinstance(v, SigmaString): return ["s", str(v)]
    if isinstance(v, SigmaBool): return ["b", bool(v.boolean)]
    if isinstance(v, SigmaNumber): return ["n", v.number]
    if isinstance(v, SigmaNull): return ["z"]
    if isinstance(v, SigmaFieldReference): return ["r", v.field]
    if isinstance(v, SigmaRegularExpression): return ["x", str(v.regexp)]
    return ["?", type(v).__name__]

def enc_tree(d):
    if isinstance(d, SigmaDetection):
        return {"n": [enc_tree(x) for x in d.detection_items]}
    return {"l": [d.field, [enc_val(v) for v in d.value], sorted(d.applied_processing_items)]}

def enc_plain(v):
    if isinstance(v, bool): return ["b", v]
    if isinstance(v, int): return ["n", v]
    if isinstance(v, float): return ["f", v]
    if isinstance(v, str): return ["s", v]
    if v is None: return ["z"]
    return ["?", type(v).__name__]

def snapshot(rule, pl):
    ls = rule.logsource
    return {
        "ls": [ls.category, ls.product, ls.service],
        "custom": [[k, enc_plain(v)] for k, v in rule.custom_attributes.items()],
        "fields": list(rule.fields),
        "applied": sorted(rule.applied_processing_items),
        "dets": [[n, enc_tree(d)] for n, d in rule.detection.detections.items()],
        "state": [[k, enc_plain(v)] for k, v in pl.state.items()],
        "ftrack": sorted([k, sorted(v)] for k, v in pl.field_name_applied_ids.items() if v),
    }

def run_pipe(case):
    rule = SigmaRule.from_dict(rule_dict(case["rule"]))
    out = {"berr": None, "snaps": [], "rerr": None, "s0": None}
    try:
        pl = ProcessingPipeline.from_dict({"transformations": [item_dict(it) for it in case["items"]]})
    except Exception as e:
        out["berr"] = err(e)
        return out
    # observe the state after every item without changing the pipeline: wrap the bound apply methods
    snaps = []
    def wrap(item):
        orig = item.apply
        def apply(r):
            res = orig(r)
            s = snapshot(r, pl)
            s["flag"] = bool(res)
            snaps.append(s)
            return res
        item.apply = apply
    for item in pl.items:
        wrap(item)
    # rules converted earlier with the same pipeline object: apply() must start every rule afresh
    for pre in case.get("pre", []):
        try:
            pl.apply(SigmaRule.from_dict(rule_dict(pre)))
        except Exception:
            pass
    del snaps[:]
    # the state before: the rule as parsed; apply() resets the pipeline's bookkeeping
    s0 = snapshot(rule, pl)
    s0["state"], s0["ftrack"] = [], []
    out["s0"] = s0
    try:
        pl.apply(rule)
    except Exception as e:
        out["rerr"] = err(e)
    out["snaps"] = snaps
    out["applied"] = list(pl.applied)
    out["applied_ids"] = sorted(pl.applied_ids)
    return out

# ---------------------------------------------------------------------------------------
def enc_expr(e):
    if isinstance(e, ConditionIdentifier): return ["id", e.identifier]
    if isinstance(e, ConditionNOT): return ["not", enc_expr(e.condition)]
    if isinstance(e, ConditionAND): return ["and", enc_expr(e.left), enc_expr(e.right)]
    if isinstance(e, ConditionOR): return ["or", enc_expr(e.left), enc_expr(e.right)]
    return ["?", exc_name(e)]

def run_expr(case):
    try:
        return {"tree": enc_expr(parse_condition_expression(case["s"]))}
    except Exception as e:
        return {"err": err(e)}
