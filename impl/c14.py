"""C14: replay a history of public pipeline API calls on the real code and report what the last
conversion shows (Backend.convert()/convert_rule()+finalize() output, pipeline.applied, state,
applied_ids, vars)."""
from collections import defaultdict
from sigma.processing.pipeline import ProcessingPipeline
from sigma.processing.resolver import ProcessingPipelineResolver
from sigma.backends.test import TextQueryTestBackend
from sigma.collection import SigmaCollection
from sigma.rule import SigmaRule


def _cond(c):
    if c is None:
        return []
    if c[0] == "state":
        return [{"type": "processing_state", "key": c[1], "val": c[2]}]
    if c[0] == "applied":
        return [{"type": "processing_item_applied", "processing_item_id": c[1]}]
    raise ValueError(c)


def _item(i):
    k = i["kind"]
    d = {"id": i["id"], "rule_conditions": _cond(i["cond"])}
    if k[0] == "set_state":
        d.update(type="set_state", key=k[1], val=k[2])
    elif k[0] == "suffix":
        d.update(type="field_name_suffix", suffix=k[1])
    elif k[0] == "add_cond":
        d.update(type="add_condition", conditions={k[1]: k[2]})
    else:
        raise ValueError(k)
    return d


def _post(q):
    k = q["kind"]
    d = {"id": q["id"], "rule_conditions": _cond(q["cond"])}
    if k[0] == "embed":
        d.update(type="embed", prefix=k[1], suffix=k[2])
    elif k[0] == "tpl_state":
        d.update(type="simple_template", template="{query}|{pipeline.state[" + k[1] + "]}")
    elif k[0] == "tpl_var":
        d.update(type="simple_template", template="{query}|{pipeline.vars[" + k[1] + "]}")
    else:
        raise ValueError(k)
    return d


def pipedict(d):
    dd = {"transformations": [_item(i) for i in d["items"]],
          "postprocessing": [_post(q) for q in d["post"]],
          "finalizers": [{"type": "concat", "separator": f["sep"], "prefix": f["pre"], "suffix": f["suf"]} for f in d["fin"]],
          "vars": {k: v for k, v in d["vars"]}, "priority": d["prio"]}
    if d["name"] is not None:
        dd["name"] = d["name"]
    return dd


def mkpipe(d):
    return ProcessingPipeline.from_dict(pipedict(d))


def run_hist(case):
    import os, tempfile, shutil
    tmp = tempfile.mkdtemp(prefix="c14files_")
    cwd = os.getcwd()
    os.chdir(tmp)          # resolver specs that are file names are relative to this directory
    try:
        return _run_hist(case)
    finally:
        os.chdir(cwd)
        shutil.rmtree(tmp, ignore_errors=True)


def _run_hist(case):
    import yaml
    regs = [mkpipe(d) for d in case["defs"]]
    # the resolver table: identifier -> registered object | callable; YAML files are found by path
    table = {}
    for ident, ent in case["tab"]:
        if ent[0] == "obj":
            table[ident] = regs[ent[1]]
        elif ent[0] == "call":
            table[ident] = (lambda d=ent[1]: mkpipe(d))
        elif ent[0] == "seq":          # a callable with a memory: k-th call -> k-th definition, then the last one
            def seqcall(ds=ent[1], st=[0]):
                d = ds[min(st[0], len(ds) - 1)]
                st[0] += 1
                return mkpipe(d)
            table[ident] = seqcall
        elif ent[0] == "file":
            with open(ident, "w") as f:
                f.write(yaml.safe_dump(pipedict(ent[1]), sort_keys=False))
        else:
            raise ValueError(ent)
    resolver = ProcessingPipelineResolver(table)
    bk = mkpipe(case["bk"])
    outf = {f: mkpipe(case["of"][f]) for f in ("default", "test", "state")}     # class-level objects, one per format

    class VBackend(TextQueryTestBackend):
        convert_or_as_in = False
        convert_and_as_in = False
        backend_processing_pipeline = bk
        output_format_processing_pipeline = defaultdict(ProcessingPipeline, outf)

    def rules():
        return SigmaCollection([
            SigmaRule.from_dict({"title": "t", "logsource": {"category": "c"},
                                 "detection": {"sel": {r["f"]: r["v"]},
                                               "condition": ["sel", "sel"] if r["two"] else "sel"}})
            for r in case["rules"]])

    def ev(t):
        if isinstance(t, int):
            return regs[t]
        return ev(t[0]) + ev(t[1])

    backs = {False: VBackend(), True: VBackend()}      # two backend objects of one class, alive for the whole history
    res = None
    for op in case["prog"]:
        if op[0] == "tree":
            regs.append(ev(op[1]))
        elif op[0] == "resolve":
            regs.append(resolver.resolve(list(op[1])))
        elif op[0] == "sum":
            regs.append(sum([regs[i] for i in op[1]]))
        elif op[0] == "init":
            b = backs[op[1]]
            b.processing_pipeline = None if op[2] is None else regs[op[2]]
            b.init_processing_pipeline(op[3])
        elif op[0] in ("run", "convert"):
            b = backs[op[1]]
            fmt = op[3] if op[0] == "convert" else op[2]
            obs = []

            def cb(rule, output_format, index, cond, result, b=b, obs=obs):
                if index == 0:
                    lp = b.last_processing_pipeline
                    obs.append([list(lp.applied), [[k, v] for k, v in lp.state.items()]])
                return result
            if op[0] == "convert":
                b.processing_pipeline = None if op[2] is None else regs[op[2]]
                out = b.convert(rules(), fmt, callback=cb)
            else:
                qs = [q for r in rules().rules for q in b.convert_rule(r, fmt, cb)]
                out = b.finalize(qs, fmt)
            lp = b.last_processing_pipeline
            if isinstance(out, str):
                o = ["s", out]
            elif isinstance(out, list) and all(isinstance(x, str) for x in out):
                o = ["l", out]
            else:
                o = ["?", repr(out)]
            res = {"out": o, "rules": obs, "ids": sorted(lp.applied_ids),
                   "vars": [[str(k), str(v)] for k, v in lp.vars.items()]}
        else:
            raise ValueError(op)
    return res
