"""Implementation side of C12: load the rule, serialise its detection trees (after modifiers), apply the
processing pipeline (ProcessingPipeline.from_dict on the YAML-shaped pipeline), serialise the trees
again, convert rule+pipeline with the verification backend of C01; then spell the hand-rewritten
document computed by the specification code in props/c12.py and convert it WITHOUT a pipeline."""
from impl.excname import exc_name
import copy
from sigma.rule import SigmaRule, SigmaDetection, SigmaDetectionItem
from sigma.conditions import ConditionAND
from sigma.processing.pipeline import ProcessingPipeline
from sigma.types import (SigmaString, SigmaCasedString, SigmaNumber, SigmaTimestampPart, SigmaBool, SigmaNull,
                         SigmaRegularExpression, SigmaCIDRExpression, SigmaCompareExpression, SigmaFieldReference,
                         SigmaExists, SigmaExpansion, SigmaQueryExpression, SpecialChars, Placeholder)
from impl.c01 import make_backend
from props import c12 as spec

K = {"prec": ["not", "and", "or"], "parenthesize": False, "or_in": False, "and_in": False, "in_wild": False,
     "not_eq": False, "explicit_not_exists": True, "cidr_native": True, "startswith": False, "endswith": False,
     "contains": False, "wildmatch": False, "allow_special": False, "cs_variants": False, "sep": " "}
_B = [None]


def backend_class():
    if _B[0] is None:
        _B[0] = make_backend(K)
    return _B[0]


def parts(s):
    out = []
    for p in s.s:
        if isinstance(p, str):
            if p != "":
                out.append(["s", p])
            else:
                out.append(["s", ""])
        elif p == SpecialChars.WILDCARD_MULTI:
            out.append(["m"])
        elif p == SpecialChars.WILDCARD_SINGLE:
            out.append(["q"])
        elif isinstance(p, Placeholder):
            out.append(["p", p.name])
        else:
            out.append(["?", repr(p)])
    return out


def ser_value(v):
    if isinstance(v, SigmaExpansion):
        return ["exp", [ser_value(x) for x in v.values]]
    if isinstance(v, SigmaCasedString):
        return ["str", True, parts(v)]
    if isinstance(v, SigmaString):
        return ["str", False, parts(v)]
    if isinstance(v, SigmaTimestampPart):
        return ["other", "tspart", v.timestamp_part.name.lower(), str(v.number)]
    if isinstance(v, SigmaNumber):
        return ["num", str(v.number)]
    if isinstance(v, SigmaBool):
        return ["bool", bool(v.boolean)]
    if isinstance(v, SigmaNull):
        return ["null"]
    if isinstance(v, SigmaRegularExpression):
        return ["re", str(v.regexp), "".join(sorted(SigmaRegularExpression.sigma_to_re_flag[f] for f in v.flags))]
    if isinstance(v, SigmaFieldReference):
        return ["ref", v.field, bool(v.starts_with), bool(v.ends_with)]
    if isinstance(v, SigmaQueryExpression):
        return ["query", v.expr, v.id]
    if isinstance(v, SigmaCIDRExpression):
        return ["other", "cidr", str(v.cidr)]
    if isinstance(v, SigmaCompareExpression):
        if isinstance(v.number, SigmaTimestampPart):
            return ["other", "cmp_ts", v.op.name, v.number.timestamp_part.name.lower(), str(v.number.number)]
        return ["other", "cmp", v.op.name, str(v.number.number)]
    if isinstance(v, SigmaExists):
        return ["other", "exists", "true" if v.exists else "false"]
    return ["other", "unknown", type(v).__name__]


def ser_det(d):
    if isinstance(d, SigmaDetection):
        return {"items": [ser_det(x) for x in d.detection_items], "and": d.item_linking is ConditionAND}
    return {"f": d.field, "vs": [ser_value(v) for v in d.value], "all": d.value_linking is ConditionAND,
            "neg": bool(d.negated), "ap": sorted(d.applied_processing_items)}


def ser_rule(rule, pipeline=None):
    ls = rule.logsource
    return {"dets": [[n, ser_det(d)] for n, d in rule.detection.detections.items()],
            "cond": rule.detection.parsed_condition[0].condition,
            "fields": list(rule.fields),
            "attrs": {"logsource": {"category": ls.category, "product": ls.product, "service": ls.service},
                      "custom": {k: spec.pj(v) for k, v in rule.custom_attributes.items()},
                      "state": {k: spec.pj(v) for k, v in (pipeline.state.items() if pipeline is not None else [])},
                      "applied": sorted(rule.applied_processing_items)}}


def convert(rule, pipeline, before=()):
    """query of rule through one backend object that converted the rules `before` first"""
    B = backend_class()
    try:
        backend = B(pipeline)
        for r0 in before:
            try:
                backend.convert_rule(r0)
            except Exception:  # noqa
                pass
        qs = backend.convert_rule(rule)
    except NotImplementedError as e:
        return {"unsupported": str(e)[:100]}
    except Exception as e:  # noqa
        from sigma.exceptions import SigmaError
        return {"exc": exc_name(e), "sigma": isinstance(e, SigmaError), "msg": str(e)[:160]}
    return {"qs": qs}


def run_tr(case):
    rule = SigmaRule.from_dict(copy.deepcopy(case["rule"]))
    rin = ser_rule(rule)
    # detections that add_condition items add: pure loading of the (already substituted) definition
    added = {}
    for key, d in case.get("added", {}).items():
        added[key] = ser_det(SigmaDetection.from_definition(copy.deepcopy(d)))
    out = {"rin": rin, "added": added}
    # 1. the pipeline applied to the rule
    pipeline = ProcessingPipeline.from_dict(spec.denull(case["pipeline"]))
    try:
        # "pre": rule documents that went through the same pipeline object before (a pipeline is applied to rule
        # after rule; nothing of an earlier rule may show in a later one)
        for pre in case.get("pre", []):
            pipeline.apply(SigmaRule.from_dict(copy.deepcopy(pre)))
        pipeline.apply(rule)
        out["rout"] = ser_rule(rule, pipeline)
    except Exception as e:  # noqa
        from sigma.exceptions import SigmaError
        out["apply_exc"] = {"exc": exc_name(e), "sigma": isinstance(e, SigmaError), "msg": str(e)[:160]}
        return out
    # 1b. keyword entries mapped to a field by a leading null-key mapping: what the documented source-level entry
    #     loads to, next to what the pipeline's first item made of the keyword entry (only the values matter)
    kd = spec.kw_documented(case)
    if kd:
        r1 = SigmaRule.from_dict(copy.deepcopy(case["rule"]))
        p1 = spec.denull(case["pipeline"])
        p1["transformations"] = p1["transformations"][:1]
        ProcessingPipeline.from_dict(p1).apply(r1)
        out["kwdoc"] = []
        for name, pos, docs in kd:
            det = r1.detection.detections[name]
            got = ser_det(det.detection_items[pos])
            got_items = got["items"] if "items" in got else [got]
            loaded = [ser_det(SigmaDetection.from_definition(copy.deepcopy(d)).detection_items[0]) for d in docs]
            strip = lambda x: [x["f"], x["vs"], x["all"], x["neg"]]
            out["kwdoc"].append({"name": name, "pos": pos, "doc": docs, "loaded": [strip(x) for x in loaded],
                                 "got": [strip(x) for x in got_items],
                                 "ok": [strip(x) for x in loaded] == [strip(x) for x in got_items]})
    # 2. conversion of rule + pipeline through the API
    out["q1"] = convert(SigmaRule.from_dict(copy.deepcopy(case["rule"])),
                        ProcessingPipeline.from_dict(spec.denull(case["pipeline"])),
                        [SigmaRule.from_dict(copy.deepcopy(pre)) for pre in case.get("pre", [])])
    # 3. the hand-rewritten document (specification code, independent of sigma), converted without pipeline
    rw = spec.rewrite_case(case, rin, added, out["rout"])
    out["rw"] = rw["docs"]
    if rw.get("skip"):
        out["skip"] = rw["skip"]
        return out
    out["spelled"] = rw["rule"]
    if rw["rule"] is None:
        out["q2"] = {"qs": []}
    else:
        try:
            r2 = SigmaRule.from_dict(copy.deepcopy(rw["rule"]))
        except Exception as e:  # noqa
            out["skip"] = "rewritten document does not load: " + exc_name(e) + " " + str(e)[:100]
            return out
        # self-check of the speller: every atom detection loads to exactly the value it spells
        chk = {n: ser_det(d) for n, d in r2.detection.detections.items()}
        for n, want in rw["atoms"].items():
            got = chk[n]["items"][0]
            if [got["f"], got["vs"]] != want:
                out["skip"] = "speller self-check failed for " + n
                return out
        out["q2"] = convert(r2, None)
    return out
