"""Implementation side of C01: a TextQueryBackend subclass generated from a configuration (every atom
self-delimiting), conversion of a generated rule, serialisation of the post-processed condition tree
and of the detection items (for the reference semantics)."""
import re
from sigma.conversion.base import TextQueryBackend, Backend
from sigma.conversion.state import ConversionState
from sigma.conditions import (ConditionAND, ConditionOR, ConditionNOT, ConditionItem,
                              ConditionFieldEqualsValueExpression, ConditionValueExpression)
from sigma.rule import SigmaRule, SigmaDetection, SigmaDetectionItem
from sigma.types import (SigmaString, SigmaCasedString, SigmaNumber, SigmaTimestampPart, SigmaBool, SigmaNull,
                         SigmaRegularExpression, SigmaCIDRExpression, SigmaCompareExpression, SigmaFieldReference,
                         SigmaExists, SigmaExpansion, SigmaQueryExpression, SpecialChars, Placeholder,
                         CompareOperators, SigmaRegularExpressionFlag, TimestampPart)

PRECS = {"not": ConditionNOT, "and": ConditionAND, "or": ConditionOR}
_counter = [0]


def make_backend(k):
    _counter[0] += 1
    attrs = dict(
        name="verif", formats={"default": "plain"}, requires_pipeline=False,
        precedence=tuple(PRECS[x] for x in k["prec"]),
        parenthesize=k["parenthesize"],
        group_expression="({expr})",
        token_separator=k.get("sep", " "), or_token="or", and_token="and", not_token="not", eq_token="=",
        field_quote="'", field_quote_pattern=re.compile(r"^\w+$"), field_quote_pattern_negation=True,
        field_escape="\\", field_escape_quote=True, field_escape_pattern=None,
        str_quote='"', escape_char="\\", wildcard_multi="*", wildcard_single="?",
        add_escaped="\\«»", filter_chars="", bool_values={True: "true", False: "false"},
        eq_expression="«{field}={value}»",
        not_eq_token="!=", not_eq_expression="«{field}!={value}»",
        startswith_expression="«{field} startswith {value}»" if k["startswith"] else None,
        not_startswith_expression="«{field} !startswith {value}»" if k["startswith"] else None,
        endswith_expression="«{field} endswith {value}»" if k["endswith"] else None,
        not_endswith_expression="«{field} !endswith {value}»" if k["endswith"] else None,
        contains_expression="«{field} contains {value}»" if k["contains"] else None,
        not_contains_expression="«{field} !contains {value}»" if k["contains"] else None,
        startswith_expression_allow_special=k["allow_special"],
        endswith_expression_allow_special=k["allow_special"],
        contains_expression_allow_special=k["allow_special"],
        wildcard_match_expression="«{field} match {value}»" if k["wildmatch"] else None,
        case_sensitive_match_expression="«{field} cmatch {value}»",
        case_sensitive_startswith_expression="«{field} cstartswith {value}»" if k["cs_variants"] else None,
        case_sensitive_not_startswith_expression="«{field} !cstartswith {value}»" if k["cs_variants"] else None,
        case_sensitive_endswith_expression="«{field} cendswith {value}»" if k["cs_variants"] else None,
        case_sensitive_not_endswith_expression="«{field} !cendswith {value}»" if k["cs_variants"] else None,
        case_sensitive_contains_expression="«{field} ccontains {value}»" if k["cs_variants"] else None,
        case_sensitive_not_contains_expression="«{field} !ccontains {value}»" if k["cs_variants"] else None,
        case_sensitive_startswith_expression_allow_special=k["allow_special"],
        case_sensitive_endswith_expression_allow_special=k["allow_special"],
        case_sensitive_contains_expression_allow_special=k["allow_special"],
        re_expression="«{field}=~/{regex}/{flag_i}{flag_m}{flag_s}»",
        not_re_expression="«{field}!~/{regex}/{flag_i}{flag_m}{flag_s}»",
        re_escape_char="\\", re_escape=("/", "«", "»"), re_escape_escape_char=True, re_flag_prefix=False,
        re_flags={SigmaRegularExpressionFlag.IGNORECASE: "i", SigmaRegularExpressionFlag.MULTILINE: "m",
                  SigmaRegularExpressionFlag.DOTALL: "s"},
        cidr_expression="«cidr({field},{value})»" if k["cidr_native"] else None,
        not_cidr_expression="«!cidr({field},{value})»" if k["cidr_native"] else None,
        compare_op_expression="«{field}{operator}{value}»",
        compare_operators={CompareOperators.LT: "<", CompareOperators.LTE: "<=", CompareOperators.GT: ">",
                           CompareOperators.GTE: ">=", CompareOperators.NEQ: "<>"},
        field_null_expression="«{field} is null»",
        field_exists_expression="«exists({field})»",
        field_not_exists_expression="«notexists({field})»" if k["explicit_not_exists"] else None,
        field_equals_field_expression="«{field1}=={field2}»",
        field_equals_field_startswith_expression="«{field1} fstartswith {field2}»",
        field_equals_field_endswith_expression="«{field1} fendswith {field2}»",
        field_equals_field_contains_expression="«{field1} fcontains {field2}»",
        field_equals_field_escaping_quoting=(True, True),
        convert_or_as_in=k["or_in"], convert_and_as_in=k["and_in"], in_expressions_allow_wildcards=k["in_wild"],
        field_in_list_expression="«{field} {op} ({list})»", or_in_operator="in", and_in_operator="contains-all",
        list_separator=", ",
        unbound_value_str_expression="«_={value}»", unbound_value_num_expression="«_={value}»",
        unbound_value_re_expression="«_=~/{regex}/{flag_i}{flag_m}{flag_s}»",
        convert_not_as_not_eq=k["not_eq"],
        field_timestamp_part_expression="«{field}.{timestamp_part}»",
        timestamp_part_mapping={TimestampPart.MINUTE: "minute", TimestampPart.HOUR: "hour", TimestampPart.DAY: "day",
                                TimestampPart.WEEK: "week", TimestampPart.MONTH: "month", TimestampPart.YEAR: "year"},
        deferred_start="", deferred_separator="", deferred_only_query="",
    )
    return type(f"VBackend{_counter[0]}", (TextQueryBackend,), attrs)


# ---------------------------------------------------------------------------------------------------
def parts(s):
    out = []
    for p in s.s:
        if isinstance(p, str):
            out += [["L", c] for c in p]
        elif p == SpecialChars.WILDCARD_MULTI:
            out.append(["M"])
        elif p == SpecialChars.WILDCARD_SINGLE:
            out.append(["S"])
        else:
            out.append(["P", p.name])
    return out


def canon_value(v):
    """Canonical, implementation-independent description of a (post-modifier) Sigma value."""
    if isinstance(v, SigmaExpansion):
        return ["exp", [canon_value(x) for x in v.values]]
    if isinstance(v, SigmaCasedString):
        return ["cstr", parts(v)]
    if isinstance(v, SigmaString):
        return ["str", parts(v)]
    if isinstance(v, SigmaTimestampPart):
        return ["tspart", v.timestamp_part.name.lower(), str(v.number)]
    if isinstance(v, SigmaNumber):
        return ["num", str(v.number)]
    if isinstance(v, SigmaBool):
        return ["bool", v.boolean]
    if isinstance(v, SigmaNull):
        return ["null"]
    if isinstance(v, SigmaExists):
        return ["exists", bool(v.exists)]
    if isinstance(v, SigmaRegularExpression):
        return ["re", str(v.regexp), sorted(SigmaRegularExpression.sigma_to_re_flag[f] for f in v.flags)]
    if isinstance(v, SigmaCIDRExpression):
        return ["cidr", str(v.network), [parts(SigmaString(p)) for p in v.expand()]]
    if isinstance(v, SigmaCompareExpression):
        if isinstance(v.number, SigmaTimestampPart):
            return ["cmp_ts", v.op.name, v.number.timestamp_part.name.lower(), str(v.number.number)]
        return ["cmp", v.op.name, str(v.number.number)]
    if isinstance(v, SigmaFieldReference):
        return ["fieldref", v.field, bool(v.starts_with), bool(v.ends_with)]
    return ["other", type(v).__name__]


def ser_detection(d):
    if isinstance(d, SigmaDetection):
        return {"det": [ser_detection(x) for x in d.detection_items],
                "link": "and" if d.item_linking is ConditionAND else "or"}
    return {"field": d.field, "values": [canon_value(v) for v in d.value],
            "vlink": "and" if d.value_linking is ConditionAND else "or", "neg": bool(d.negated)}


class Ser:
    def __init__(self, backend):
        self.b = backend
        self.atoms = {}      # normal text -> id
        self.atexts = []     # [id, normal, negated]
        self.fields = {}     # field -> id
        self.ftexts = []
        self.vtexts = []

    def field_id(self, f):
        if f not in self.fields:
            self.fields[f] = len(self.fields)
            self.ftexts.append([self.fields[f], self.b.escape_and_quote_field(f)])
        return self.fields[f]

    def atom(self, field, value):
        st = ConversionState()
        if field is None:
            leaf = ConditionValueExpression(value)
            normal = self.b.convert_condition(leaf, st)
            neg = normal
        else:
            leaf = ConditionFieldEqualsValueExpression(field, value)
            normal = self.b.convert_condition(leaf, st)
            with self.b.not_equals_context_manager(True):
                neg = Backend.convert_condition_field_eq_val(self.b, leaf, st)
        if normal not in self.atoms:
            i = len(self.atoms)
            self.atoms[normal] = i
            self.atexts.append([i, normal, neg])
            if isinstance(value, SigmaString):
                self.vtexts.append([i, self.b.convert_value_str(value, st)])
            elif isinstance(value, SigmaNumber):
                self.vtexts.append([i, str(value)])
        return self.atoms[normal], normal != neg

    def leaf(self, field, value):
        b = self.b
        if isinstance(value, SigmaExpansion):
            return ["exp", [self.leaf(field, v) for v in value.values]]
        if isinstance(value, SigmaCIDRExpression) and b.cidr_expression is None and field is not None:
            ps = []
            for p in value.expand():
                s = SigmaString(p)
                a, negatable = self.atom(field, s)
                ps.append([a, s.contains_special(), negatable])
            return ["orfresh", self.field_id(field), ps]
        if isinstance(value, SigmaExists) and not value.exists and not b.explicit_not_exists_expression:
            a, _ = self.atom(field, SigmaExists(True))
            return ["notexists", a]
        if isinstance(value, SigmaCasedString):
            kind = ["cased", value.contains_special()]
        elif isinstance(value, SigmaString):
            kind = ["str", value.contains_special()]
        elif isinstance(value, SigmaTimestampPart):
            kind = ["tspart"]
        elif isinstance(value, SigmaNumber):
            kind = ["num"]
        else:
            kind = ["other"]
        a, negatable = self.atom(field, value)
        return ["atom", kind, None if field is None else self.field_id(field), negatable, a]

    def tree(self, c):
        if isinstance(c, ConditionAND):
            return ["and", [self.tree(a) for a in c.args]]
        if isinstance(c, ConditionOR):
            return ["or", [self.tree(a) for a in c.args]]
        if isinstance(c, ConditionNOT):
            return ["not", self.tree(c.args[0])]
        if isinstance(c, ConditionFieldEqualsValueExpression):
            return self.leaf(c.field, c.value)
        if isinstance(c, ConditionValueExpression):
            return self.leaf(None, c.value)
        if c is None:
            return ["none"]
        return ["unknown", type(c).__name__]


def run_struct(case):
    B = make_backend(case["k"])
    backend = B()
    rule = SigmaRule.from_dict(case["rule"])
    dets = {name: ser_detection(d) for name, d in rule.detection.detections.items()}
    out = {"dets": dets, "conds": []}
    for cond in rule.detection.parsed_condition:
        ser = Ser(backend)
        try:
            t = ser.tree(cond.parsed)
            q = backend.convert_condition(cond.parsed, ConversionState())
            out["conds"].append({"tree": t, "atexts": ser.atexts, "ftexts": ser.ftexts, "vtexts": ser.vtexts, "query": q})
        except NotImplementedError as e:
            out["conds"].append({"unsupported": str(e)[:100]})
    # the API result must be the same strings (convert_rule adds only finalisation, which is the identity here)
    try:
        out["api"] = backend.convert_rule(rule)
    except NotImplementedError as e:
        out["api"] = None
    return out


def run_strop(case):
    B = make_backend(case["k"])
    b = B()
    leaf = ConditionFieldEqualsValueExpression("f", SigmaString(case["s"]))
    return {"text": b.convert_condition_field_eq_val_str(leaf, ConversionState())}
