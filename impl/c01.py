"""Implementation side of C01: a TextQueryBackend subclass generated from a configuration (every atom
self-delimiting), conversion of a generated rule, serialisation of the post-processed condition tree
and of the detection items (for the reference semantics)."""
from impl.excname import exc_name
import re
from sigma.conversion.base import TextQueryBackend, Backend
from sigma.conversion.state import ConversionState
from sigma.conditions import (ConditionAND, ConditionOR, ConditionNOT, ConditionItem,
                              ConditionFieldEqualsValueExpression, ConditionValueExpression)
from sigma.rule import SigmaRule, SigmaDetection, SigmaDetectionItem
from sigma.types import (SigmaString, SigmaCasedString, SigmaNumber, SigmaTimestampPart, SigmaBool, SigmaNull,
                         SigmaRegularExpression, SigmaCIDRExpression, SigmaCompareExpression, SigmaFieldReference,
                         SigmaExists, SigmaExpansion, SigmaQueryExpression, SpecialChars, Placeholder,
                         CompareOperators, SigmaRegularExpressionFlag, TimestampPart)

PRECS = {"not": ConditionNOT, "and": ConditionAND, "or": ConditionOR}
_counter = [0]


def make_backend(k):
    _counter[0] += 1
    attrs = dict(
        name="verif", formats={"default": "plain"}, requires_pipeline=False,
        precedence=tuple(PRECS[x] for x in k["prec"]),
        parenthesize=k["parenthesize"],
        group_expression="({expr})",
        token_separator=k.get("sep", " "), or_token="or", and_token="and", not_token="not", eq_token="=",
        field_quote="'", field_quote_pattern=re.compile(r"^\w+\Z"), field_quote_pattern_negation=True,
        field_escape="\\", field_escape_quote=True, field_escape_pattern=re.compile(r"[\\»']" if k.get("fpat_overlap") else r"[\\»]"),
        str_quote='"', escape_char="\\", wildcard_multi="*", wildcard_single="?",
        add_escaped="\\«»=~", filter_chars="",
        str_quote_pattern=re.compile(k["qpat"][0]) if k.get("qpat") else None,
        str_quote_pattern_negation=bool(k["qpat"][1]) if k.get("qpat") else False, bool_values={True: "true", False: "false"},
        eq_expression="«{field}={value}»",
        not_eq_token="!=", not_eq_expression="«{field}!={value}»",
        startswith_expression="«{field} startswith {value}»" if k["startswith"] else None,
        not_startswith_expression="«{field} !startswith {value}»" if k["startswith"] else None,
        endswith_expression="«{field} endswith {value}»" if k["endswith"] else None,
        not_endswith_expression="«{field} !endswith {value}»" if k["endswith"] else None,
        contains_expression="«{field} contains {value}»" if k["contains"] else None,
        not_contains_expression="«{field} !contains {value}»" if k["contains"] else None,
        startswith_expression_allow_special=k["allow_special"],
        endswith_expression_allow_special=k["allow_special"],
        contains_expression_allow_special=k["allow_special"],
        wildcard_match_expression="«{field} match {value}»" if k["wildmatch"] else None,
        case_sensitive_match_expression="«{field} cmatch {value}»",
        case_sensitive_startswith_expression="«{field} cstartswith {value}»" if k["cs_variants"] else None,
        case_sensitive_not_startswith_expression="«{field} !cstartswith {value}»" if k["cs_variants"] else None,
        case_sensitive_endswith_expression="«{field} cendswith {value}»" if k["cs_variants"] else None,
        case_sensitive_not_endswith_expression="«{field} !cendswith {value}»" if k["cs_variants"] else None,
        case_sensitive_contains_expression="«{field} ccontains {value}»" if k["cs_variants"] else None,
        case_sensitive_not_contains_expression="«{field} !ccontains {value}»" if k["cs_variants"] else None,
        case_sensitive_startswith_expression_allow_special=k["allow_special"],
        case_sensitive_endswith_expression_allow_special=k["allow_special"],
        case_sensitive_contains_expression_allow_special=k["allow_special"],
        re_expression="«{field}=~/{regex}/{flag_i}{flag_m}{flag_s}»",
        not_re_expression="«{field}!~/{regex}/{flag_i}{flag_m}{flag_s}»",
        re_escape_char="\\", re_escape=("/", "«", "»"), re_escape_escape_char=True, re_flag_prefix=False,
        re_flags={SigmaRegularExpressionFlag.IGNORECASE: "i", SigmaRegularExpressionFlag.MULTILINE: "m",
                  SigmaRegularExpressionFlag.DOTALL: "s"},
        cidr_expression="«cidr({field},{value})»" if k["cidr_native"] else None,
        not_cidr_expression="«!cidr({field},{value})»" if k["cidr_native"] else None,
        compare_op_expression="«{field}{operator}{value}»",
        compare_operators={CompareOperators.LT: "<", CompareOperators.LTE: "<=", CompareOperators.GT: ">",
                           CompareOperators.GTE: ">=", CompareOperators.NEQ: "<>"},
        field_null_expression="«{field} is null»",
        field_exists_expression="«exists({field})»",
        field_not_exists_expression="«notexists({field})»" if k["explicit_not_exists"] else None,
        field_equals_field_expression="«{field1}=={field2}»",
        field_equals_field_startswith_expression="«{field1} fstartswith {field2}»",
        field_equals_field_endswith_expression="«{field1} fendswith {field2}»",
        field_equals_field_contains_expression="«{field1} fcontains {field2}»",
        field_equals_field_escaping_quoting=(True, True),
        convert_or_as_in=k["or_in"], convert_and_as_in=k["and_in"], in_expressions_allow_wildcards=k["in_wild"],
        field_in_list_expression="«{field} {op} ({list})»", or_in_operator="in", and_in_operator="contains-all",
        list_separator=", ",
        unbound_value_str_expression="«_={value}»", unbound_value_num_expression="«_ num {value}»",
        unbound_value_re_expression="«_=~/{value}/{flag_i}{flag_m}{flag_s}»",
        convert_not_as_not_eq=k["not_eq"],
        field_timestamp_part_expression="«{field}.{timestamp_part}»",
        timestamp_part_mapping={TimestampPart.MINUTE: "minute", TimestampPart.HOUR: "hour", TimestampPart.DAY: "day",
                                TimestampPart.WEEK: "week", TimestampPart.MONTH: "month", TimestampPart.YEAR: "year"},
        deferred_start="", deferred_separator="", deferred_only_query="",
    )
    return type(f"VBackend{_counter[0]}", (TextQueryBackend,), attrs)


# ---------------------------------------------------------------------------------------------------
def parts(s):
    out = []
    for p in s.s:
        if isinstance(p, str):
            out += [["L", c] for c in p]
        elif p == SpecialChars.WILDCARD_MULTI:
            out.append(["M"])
        elif p == SpecialChars.WILDCARD_SINGLE:
            out.append(["S"])
        else:
            out.append(["P", p.name])
    return out


def canon_value(v):
    """Canonical, implementation-independent description of a (post-modifier) Sigma value."""
    if isinstance(v, SigmaExpansion):
        return ["exp", [canon_value(x) for x in v.values]]
    if isinstance(v, SigmaCasedString):
        return ["cstr", parts(v)]
    if isinstance(v, SigmaString):
        return ["str", parts(v)]
    if isinstance(v, SigmaTimestampPart):
        return ["tspart", v.timestamp_part.name.lower(), str(v.number)]
    if isinstance(v, SigmaNumber):
        return ["num", str(v.number)]
    if isinstance(v, SigmaBool):
        return ["bool", v.boolean]
    if isinstance(v, SigmaNull):
        return ["null"]
    if isinstance(v, SigmaExists):
        return ["exists", bool(v.exists)]
    if isinstance(v, SigmaRegularExpression):
        return ["re", str(v.regexp), sorted(SigmaRegularExpression.sigma_to_re_flag[f] for f in v.flags)]
    if isinstance(v, SigmaCIDRExpression):
        return ["cidr", str(v.network), [parts(SigmaString(p)) for p in v.expand()]]
    if isinstance(v, SigmaCompareExpression):
        if isinstance(v.number, SigmaTimestampPart):
            return ["cmp_ts", v.op.name, v.number.timestamp_part.name.lower(), str(v.number.number)]
        return ["cmp", v.op.name, str(v.number.number)]
    if isinstance(v, SigmaFieldReference):
        return ["fieldref", v.field, bool(v.starts_with), bool(v.ends_with)]
    if isinstance(v, SigmaQueryExpression):
        return ["qx", v.id]
    return ["other", type(v).__name__]


def ser_detection(d):
    if isinstance(d, SigmaDetection):
        return {"det": [ser_detection(x) for x in d.detection_items],
                "link": "and" if d.item_linking is ConditionAND else "or"}
    return {"field": d.field, "values": [canon_value(v) for v in d.value],
            "vlink": "and" if d.value_linking is ConditionAND else "or", "neg": bool(d.negated)}


class Ser:
    def __init__(self, backend):
        self.b = backend
        self.atoms = {}      # normal text -> id
        self.atexts = []     # [id, normal, negated]
        self.fields = {}     # field -> id
        self.ftexts = []
        self.vtexts = []

    def field_id(self, f):
        if f not in self.fields:
            self.fields[f] = len(self.fields)
            self.ftexts.append([self.fields[f], self.b.escape_and_quote_field(f)])
        return self.fields[f]

    def atom(self, field, value):
        st = ConversionState()
        if field is None:
            leaf = ConditionValueExpression(value)
            normal = self.b.convert_condition(leaf, st)
            neg = normal
        else:
            leaf = ConditionFieldEqualsValueExpression(field, value)
            normal = self.b.convert_condition(leaf, st)
            with self.b.not_equals_context_manager(True):
                neg = Backend.convert_condition_field_eq_val(self.b, leaf, st)
        if normal not in self.atoms:
            i = len(self.atoms)
            self.atoms[normal] = i
            self.atexts.append([i, normal, neg])
            if isinstance(value, SigmaString):
                self.vtexts.append([i, self.b.convert_value_str(value, st)])
            elif isinstance(value, SigmaNumber):
                self.vtexts.append([i, str(value)])
        return self.atoms[normal], normal != neg

    def leaf(self, field, value):
        b = self.b
        if isinstance(value, SigmaExpansion):
            return ["exp", [self.leaf(field, v) for v in value.values]]
        if isinstance(value, SigmaCIDRExpression) and b.cidr_expression is None and field is not None:
            ps = []
            for p in value.expand():
                s = SigmaString(p)
                a, negatable = self.atom(field, s)
                ps.append([a, s.contains_special(), negatable])
            return ["orfresh", self.field_id(field), ps]
        if isinstance(value, SigmaExists) and not value.exists and not b.explicit_not_exists_expression:
            a, _ = self.atom(field, SigmaExists(True))
            return ["notexists", a]
        if isinstance(value, SigmaCasedString):
            kind = ["cased", value.contains_special()]
        elif isinstance(value, SigmaString):
            kind = ["str", value.contains_special()]
        elif isinstance(value, SigmaTimestampPart):
            kind = ["tspart"]
        elif isinstance(value, SigmaNumber):
            kind = ["num"]
        else:
            kind = ["other"]
        a, negatable = self.atom(field, value)
        return ["atom", kind, None if field is None else self.field_id(field), negatable, a]

    @staticmethod
    def chain_not(c):
        """the decision TextQueryBackend.convert_condition_field_eq_val takes: is a NOT among the parents,
        following the parent links as they are (they pass through the detection objects of the rule)"""
        p = getattr(c, "parent", None)
        while p is not None:
            if isinstance(p, ConditionNOT):
                return True
            p = getattr(p, "parent", None)
        return False

    def tree(self, c, sn=False):
        if isinstance(c, ConditionAND):
            return ["and", [self.tree(a, sn) for a in c.args]]
        if isinstance(c, ConditionOR):
            return ["or", [self.tree(a, sn) for a in c.args]]
        if isinstance(c, ConditionNOT):
            return ["not", self.tree(c.args[0], True)]
        if isinstance(c, (ConditionFieldEqualsValueExpression, ConditionValueExpression)):
            t = self.leaf(c.field if isinstance(c, ConditionFieldEqualsValueExpression) else None, c.value)
            pn = self.chain_not(c)
            if self.b.convert_not_as_not_eq and pn != sn and t[0] in ("atom", "orfresh", "exp"):
                # the parent links say something else than the position in the tree (a detection referenced
                # several times: its objects are shared, the last reference wins): record the decision taken
                t = ["forced", pn, t]
            return t
        if False:
            pass
        if c is None:
            return ["none"]
        return ["unknown", type(c).__name__]


def _inject_query_expressions(d):
    """values spelled QX:<id> stand for the result of a query-expression placeholder transformation"""
    if isinstance(d, SigmaDetection):
        for x in d.detection_items:
            _inject_query_expressions(x)
    else:
        d.value = [SigmaQueryExpression("«{field} qx " + str(v)[3:] + "»", str(v)[3:])
                   if isinstance(v, SigmaString) and str(v).startswith("QX:") else v for v in d.value]


def run_struct(case):
    B = make_backend(case["k"])
    backend = B()
    rule = SigmaRule.from_dict(case["rule"])
    for d in rule.detection.detections.values():
        _inject_query_expressions(d)
    dets = {name: ser_detection(d) for name, d in rule.detection.detections.items()}
    out = {"dets": dets, "conds": []}
    for cond in rule.detection.parsed_condition:
        ser = Ser(backend)
        try:
            t = ser.tree(cond.parsed)
            q = backend.convert_condition(cond.parsed, ConversionState())
            out["conds"].append({"tree": t, "atexts": ser.atexts, "ftexts": ser.ftexts, "vtexts": ser.vtexts, "query": q})
        except NotImplementedError as e:
            out["conds"].append({"unsupported": str(e)[:100]})
    # the API result must be the same strings (convert_rule adds only finalisation, which is the identity here)
    try:
        out["api"] = backend.convert_rule(rule)
    except NotImplementedError as e:
        out["api"] = None
    return out


def run_strop(case):
    B = make_backend(case["k"])
    b = B()
    leaf = ConditionFieldEqualsValueExpression("f", SigmaString(case["s"]))
    return {"text": b.convert_condition_field_eq_val_str(leaf, ConversionState())}


# ---------------------------------------------------------------------------------------------------
# leaf suite: one (field, value) leaf rendered by a backend class; the class attributes are exported
# as data for Model/Leaf.v
import string as _string

TKEYS = {"op": 14, "list": 15, "field": 0, "value": 1, "regex": 2, "operator": 3, "flag_i": 4, "flag_m": 5, "flag_s": 6, "field1": 7,
         "field2": 8, "timestamp_part": 9, "network": 10, "prefixlen": 11, "netmask": 12}
TPL_ATTRS = {"l_eq": "eq_expression", "l_neq": "not_eq_expression", "l_sw": "startswith_expression",
             "l_nsw": "not_startswith_expression", "l_ew": "endswith_expression", "l_new": "not_endswith_expression",
             "l_ct": "contains_expression", "l_nct": "not_contains_expression", "l_wm": "wildcard_match_expression",
             "l_csm": "case_sensitive_match_expression", "l_csw": "case_sensitive_startswith_expression",
             "l_ncsw": "case_sensitive_not_startswith_expression", "l_cew": "case_sensitive_endswith_expression",
             "l_ncew": "case_sensitive_not_endswith_expression", "l_cct": "case_sensitive_contains_expression",
             "l_ncct": "case_sensitive_not_contains_expression", "l_re": "re_expression", "l_nre": "not_re_expression",
             "l_cidr": "cidr_expression", "l_ncidr": "not_cidr_expression", "l_cmp": "compare_op_expression",
             "l_null": "field_null_expression", "l_exists": "field_exists_expression",
             "l_nexists": "field_not_exists_expression", "l_ff": "field_equals_field_expression",
             "l_ffsw": "field_equals_field_startswith_expression", "l_ffew": "field_equals_field_endswith_expression",
             "l_ffct": "field_equals_field_contains_expression", "l_ts": "field_timestamp_part_expression",
             "l_ub_str": "unbound_value_str_expression", "l_ub_num": "unbound_value_num_expression",
             "l_ub_re": "unbound_value_re_expression", "l_in": "field_in_list_expression"}
BOOL_ATTRS = {"l_sw_sp": "startswith_expression_allow_special", "l_ew_sp": "endswith_expression_allow_special",
              "l_ct_sp": "contains_expression_allow_special",
              "l_csw_sp": "case_sensitive_startswith_expression_allow_special",
              "l_cew_sp": "case_sensitive_endswith_expression_allow_special",
              "l_cct_sp": "case_sensitive_contains_expression_allow_special"}
PARTS = [TimestampPart.MINUTE, TimestampPart.HOUR, TimestampPart.DAY, TimestampPart.WEEK, TimestampPart.MONTH, TimestampPart.YEAR]
CMPS = [CompareOperators.LT, CompareOperators.LTE, CompareOperators.GT, CompareOperators.GTE, CompareOperators.NEQ]


def parse_tpl(t, B=None):
    if t is None:
        return None
    out = []
    for lit, name, spec, conv in _string.Formatter().parse(t):
        if lit:
            out.append(["L", lit])
        if name is not None:
            if name.startswith("backend.") and not spec and not conv and B is not None and hasattr(B, name[8:]):
                out.append(["B", str(getattr(B, name[8:]))])
            elif spec or conv or name not in TKEYS:
                out.append(["V", 99])
            else:
                out.append(["V", TKEYS[name]])
    return out


def export_cfg(B):
    """the class attributes the leaf renderers read, as data"""
    g = lambda a: getattr(B, a, None)
    K = {n: parse_tpl(g(a), B) for n, a in TPL_ATTRS.items()}
    K.update({n: bool(g(a)) for n, a in BOOL_ATTRS.items()})
    K["l_f"] = {"quote": g("field_quote"), "escape": g("field_escape"), "escape_quote": bool(g("field_escape_quote"))}
    K["l_e"] = {"esc": g("escape_char"), "multi": g("wildcard_multi"), "single": g("wildcard_single"),
                "add": g("add_escaped"), "filter": g("filter_chars")}
    K["l_quote"] = g("str_quote")
    K["l_quote_pat"] = None if g("str_quote_pattern") is None else bool(g("str_quote_pattern_negation"))
    K["l_add_escaped_re"] = g("add_escaped_re")
    K["l_re_escape"] = list(g("re_escape"))
    K["l_re_ec"] = g("re_escape_char")
    K["l_re_eec"] = bool(g("re_escape_escape_char"))
    K["l_re_flag_prefix"] = bool(g("re_flag_prefix"))
    fl = g("re_flags") or {}
    K["l_re_fi"] = fl.get(SigmaRegularExpressionFlag.IGNORECASE)
    K["l_re_fm"] = fl.get(SigmaRegularExpressionFlag.MULTILINE)
    K["l_re_fs"] = fl.get(SigmaRegularExpressionFlag.DOTALL)
    K["l_eq_token"] = g("eq_token")
    K["l_or_in_op"], K["l_and_in_op"], K["l_list_sep"] = g("or_in_operator"), g("and_in_operator"), g("list_separator")
    bv = g("bool_values") or {}
    K["l_true"], K["l_false"] = bv.get(True), bv.get(False)
    co = g("compare_operators")
    K["l_cmp_ops"] = None if not isinstance(co, dict) or any(o not in co for o in CMPS) else [co[o] for o in CMPS]
    K["l_ff_q1"], K["l_ff_q2"] = [bool(x) for x in g("field_equals_field_escaping_quoting")]
    tm = g("timestamp_part_mapping")
    K["l_ts_map"] = [[i, tm[p]] for i, p in enumerate(PARTS) if p in tm] if isinstance(tm, dict) else []
    return K


def field_oracle(B, f):
    """match positions of field_escape_pattern and the field_quote_pattern decision, computed with re only"""
    pat = getattr(B, "field_escape_pattern", None)
    pos = sorted({m.start() for m in pat.finditer(f)}) if (pat is not None and B.field_escape is not None) else []
    esc_pos = set(pos)
    if B.field_escape is not None and B.field_escape_quote and B.field_quote is not None:
        esc_pos |= {i for i in range(len(f)) if f.startswith(B.field_quote, i)}
    escaped = "".join((B.field_escape if i in esc_pos else "") + ch for i, ch in enumerate(f)) if B.field_escape is not None else f
    if B.field_quote is None:
        qd = False
    elif B.field_quote_pattern is None:
        qd = True
    else:
        qd = bool(B.field_quote_pattern.match(escaped))
        if B.field_quote_pattern_negation:
            qd = not qd
    return [pos, qd]


def mk_value(v):
    t = v["t"]
    if t == "str":
        return SigmaCasedString(v["s"]) if v.get("cased") else SigmaString(v["s"])
    if t == "num":
        return SigmaNumber(v["n"])
    if t == "bool":
        return SigmaBool(v["b"])
    if t == "null":
        return SigmaNull()
    if t == "re":
        fl = {"i": SigmaRegularExpressionFlag.IGNORECASE, "m": SigmaRegularExpressionFlag.MULTILINE, "s": SigmaRegularExpressionFlag.DOTALL}
        return SigmaRegularExpression(v["rx"], {fl[c] for c in v["flags"]})
    if t == "cidr":
        return SigmaCIDRExpression(v["cidr"])
    if t == "cmp":
        return SigmaCompareExpression(SigmaNumber(v["n"]), CMPS[v["op"]])
    if t == "cmpts":
        return SigmaCompareExpression(SigmaTimestampPart(PARTS[v["part"]], v["n"]), CMPS[v["op"]])
    if t == "ts":
        return SigmaTimestampPart(PARTS[v["part"]], v["n"])
    if t == "exists":
        return SigmaExists(v["b"])
    if t == "fieldref":
        return SigmaFieldReference(v["f2"], v["sw"], v["ew"])
    raise ValueError(t)


def _wordchars(*fs):
    return sorted({ch for f in fs if f for ch in f if ord(ch) > 127 and re.match(r"\w", ch)})


def _outcome(f):
    from sigma.exceptions import SigmaError
    try:
        return {"ok": f()}
    except SigmaError as e:
        return {"exc": exc_name(e), "sigma": True}
    except Exception as e:
        return {"exc": exc_name(e), "sigma": False}


def _siblings(B):
    """renderings of leaves of every operator shape (plain and case-sensitive) and of the swapped value kinds"""
    out = []
    for cls in (SigmaString, SigmaCasedString):
        for val in ("pre*", "*suf", "*mid*", "plain", "a*b"):
            w = cls(val)
            out.append(_outcome(lambda w=w: Backend.convert_condition_field_eq_val(B(), ConditionFieldEqualsValueExpression("f", w), ConversionState())))
    out.append(_outcome(lambda: Backend.convert_condition_field_eq_val(B(), ConditionFieldEqualsValueExpression("f", SigmaRegularExpression("a.b")), ConversionState())))
    if getattr(B, "cidr_expression", None) is not None:
        out.append(_outcome(lambda: Backend.convert_condition_field_eq_val(B(), ConditionFieldEqualsValueExpression("f", SigmaCIDRExpression("10.0.0.0/8")), ConversionState())))
    return out


def run_leaf(case):
    cfg = case["cfg"]
    if cfg["family"] == "vb":
        B = make_backend(cfg["k"])
    else:
        from sigma.backends.test import TextQueryTestBackend
        _counter[0] += 1
        B = type(f"TBackend{_counter[0]}", (TextQueryTestBackend,), dict(cfg.get("attrs", {})))
    b = B()
    v = mk_value(case["value"])
    f = case["field"]
    out = {"K": export_cfg(B), "extra": _wordchars(f, case["value"].get("f2"))}
    out["fo"] = field_oracle(B, f) if f is not None else None
    if case["value"]["t"] == "fieldref":
        out["fo2"] = field_oracle(B, case["value"]["f2"])
    if isinstance(v, SigmaString):
        pat = B.str_quote_pattern
        def pm(x):
            try:
                return bool(pat.match(str(x))) if pat is not None else False
            except Exception:
                return False
        def sl(f_):
            try:
                return f_()
            except Exception:
                return None
        out["pm"] = [pm(v), pm(sl(lambda: v[:-1])), pm(sl(lambda: v[1:])), pm(sl(lambda: v[1:-1]))]
        out["val"] = ["cstr" if isinstance(v, SigmaCasedString) else "str", parts(v)]
    else:
        out["pm"] = [False] * 4
        if isinstance(v, SigmaTimestampPart):
            out["val"] = ["ts", case["value"]["part"], str(v)]
        elif isinstance(v, SigmaNumber):
            out["val"] = ["num", str(v)]
        elif isinstance(v, SigmaCIDRExpression):
            n = v.network
            out["val"] = ["cidr", str(n), str(n.network_address), str(n.prefixlen), str(n.netmask)]
        elif isinstance(v, SigmaCompareExpression):
            if isinstance(v.number, SigmaTimestampPart):
                out["val"] = ["cmpts", case["value"]["op"], case["value"]["part"], str(v.number)]
            else:
                out["val"] = ["cmp", case["value"]["op"], str(v.number)]
        elif isinstance(v, SigmaRegularExpression):
            out["val"] = ["re", str(v.regexp), sorted(case["value"]["flags"])]
        else:
            out["val"] = None     # described by the case itself
    st = ConversionState()
    if f is None:
        leaf = ConditionValueExpression(v)
        out["r"] = _outcome(lambda: b.convert_condition_val(leaf, st))
        out["rn"] = out["r"]
        out["r2"] = out["r"]
    else:
        leaf = ConditionFieldEqualsValueExpression(f, v)
        out["sib0"] = _siblings(B)
        out["r"] = _outcome(lambda: Backend.convert_condition_field_eq_val(b, leaf, st))
        def neg():
            with b.not_equals_context_manager(True):
                return Backend.convert_condition_field_eq_val(b, leaf, st)
        out["rn"] = _outcome(neg)
        # the class-level templates must be back in place after the negated-template context:
        # the same leaf again and sibling leaves of every operator shape, on the same class
        out["r2"] = _outcome(lambda: Backend.convert_condition_field_eq_val(b, leaf, st))
        out["sib1"] = _siblings(B)
    return out


def run_inlist(case):
    cfg = case["cfg"]
    if cfg["family"] == "vb":
        B = make_backend(cfg["k"])
    else:
        from sigma.backends.test import TextQueryTestBackend
        _counter[0] += 1
        B = type(f"TBackend{_counter[0]}", (TextQueryTestBackend,), dict(cfg.get("attrs", {})))
    b = B()
    f = case["field"]
    vals = [mk_value(v) for v in case["values"]]
    out = {"K": export_cfg(B), "extra": _wordchars(f), "fo": field_oracle(B, f), "vals": []}
    pat = B.str_quote_pattern
    for v in vals:
        if isinstance(v, SigmaString):
            pm = bool(pat.match(str(v))) if pat is not None else False
            out["vals"].append([["cstr" if isinstance(v, SigmaCasedString) else "str", parts(v)], pm])
        else:
            out["vals"].append([["num", str(v)], False])
    cls = ConditionOR if case["disj"] else ConditionAND
    cond = cls([ConditionFieldEqualsValueExpression(f, v) for v in vals])
    out["r"] = _outcome(lambda: b.convert_condition_as_in_expression(cond, ConversionState()))
    return out
