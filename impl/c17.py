"""C17 implementation side: one detection item with placeholders -> real pipeline (from_dict) -> real backend.

case = {"field": bool, "mods": [modifier names in order, e.g. re, expand, contains, all],
        "values": [source strings], "items": [{"t": "vl"|"wc"|"qe", "inc": None|[..], "exc": None|[..],
        "expr": str, "map": {..}}], "vars": {name: scalar | list}}
result = {"pipe": {"vals": [[kind, parts]...]} | {"exc"...},      detection item values after the pipeline
          "q":    {"ok": query} | {"exc"...},                      C17Backend (decodable templates)
          "stock":{"ok": query} | {"exc"...}}                      unchanged TextQueryTestBackend
"""
from impl.excname import exc_name
from sigma.backends.test import TextQueryTestBackend
from sigma.collection import SigmaCollection
from sigma.exceptions import SigmaError
from sigma.processing.pipeline import ProcessingPipeline
from sigma.rule import SigmaRule
from sigma.types import (SigmaString, SigmaRegularExpression, SigmaQueryExpression, SpecialChars, Placeholder)


class C17Backend(TextQueryTestBackend):
    """Test backend with templates that render every value as one literal: no in-lists, no
    startswith/endswith/contains operators, escape character escaped (so literals are decodable)."""
    add_escaped = ":\\"
    convert_or_as_in = False
    convert_and_as_in = False
    startswith_expression = None
    endswith_expression = None
    contains_expression = None
    wildcard_match_expression = None
    re_escape = ["/"]
    backend_processing_pipeline = ProcessingPipeline()


class C17InBackend(C17Backend):
    """the same with in-expressions enabled: f in ("a", "b") / f contains-all ("a", "b")"""
    convert_or_as_in = True
    convert_and_as_in = True
    in_expressions_allow_wildcards = True


TYPES = {"vl": "value_placeholders", "wc": "wildcard_placeholders", "qe": "query_expression_placeholders"}


def enc_parts(parts):
    out = []
    for p in parts:
        if isinstance(p, str): out.append(["s", p])
        elif p == SpecialChars.WILDCARD_MULTI: out.append(["m"])
        elif p == SpecialChars.WILDCARD_SINGLE: out.append(["q"])
        elif isinstance(p, Placeholder): out.append(["p", p.name])
        else: out.append(["?", repr(p)])
    return out


def enc_val(v):
    if isinstance(v, SigmaString): return ["S", enc_parts(v.s)]
    if isinstance(v, SigmaRegularExpression): return ["R", enc_parts(v.regexp.s)]
    if isinstance(v, SigmaQueryExpression): return ["Q", v.expr, v.id]
    return ["?", repr(v)]


def exc(e):
    return {"exc": exc_name(e), "sigma": isinstance(e, SigmaError), "msg": str(e)[:300]}


def rule_dict(case):
    key = "|".join(["f" if case["field"] else ""] + list(case["mods"]))
    vals = case["values"]
    return {"title": "t", "logsource": {"category": "c"},
            "detection": {"sel": {key: vals if len(vals) != 1 or case.get("aslist") else vals[0]}, "condition": "sel"}}


def pipeline_dict(case):
    trs = []
    for it in case["items"]:
        d = {"type": TYPES[it["t"]]}
        if it.get("inc") is not None: d["include"] = it["inc"]
        if it.get("exc") is not None: d["exclude"] = it["exc"]
        if it["t"] == "qe":
            d["expression"] = it["expr"]
            d["mapping"] = it.get("map") or {}
        trs.append(d)
    return {"name": "p", "priority": 10, "vars": case["vars"], "transformations": trs}


def one(backend_cls, case):
    """returns (pipeline-stage result, query result)"""
    try:
        rule = SigmaRule.from_dict(rule_dict(case))
    except Exception as e:
        return {"stage": "rule", **exc(e)}, {"stage": "rule", **exc(e)}
    try:
        pipe = ProcessingPipeline.from_dict(pipeline_dict(case))
        backend = backend_cls(pipe)
    except Exception as e:
        return {"stage": "config", **exc(e)}, {"stage": "config", **exc(e)}
    item = rule.detection.detections["sel"].detection_items[0]
    try:
        q = backend.convert_rule(rule)
        qr = {"ok": q[0] if len(q) == 1 else repr(q)}
    except Exception as e:
        qr = exc(e)
    pr = {"vals": [enc_val(v) for v in item.value]}
    return pr, qr


def run(case):
    pr, qr = one(C17Backend, case)
    _, ir = one(C17InBackend, case)
    _, sr = one(TextQueryTestBackend, case)
    return {"pipe": pr, "q": qr, "qin": ir, "stock": sr}


# ---------------------------------------------------------------------------------------------
# histories: ONE pipeline object (and so one instance of every transformation) and ONE backend are used
# for several conversions; the variable table seen by the transformations is changed between the steps.
# case = {"items": [...], "vars": {...}, "mode": "convert" | "apply",
#         "steps": [{"op": [kind, ...], "field": bool, "mods": [...], "values": [...]}, ...]}
# op: ["none"] | ["set", name, value] | ["del", name] | ["append", name, value] (list variables only)
#     | ["override", {name: value}]  (backend.processing_pipeline = old + ProcessingPipeline(vars=...))
# result = {"steps": [{"pipe":..., "q":..., "stock":...}, ...]}  - same shape per step as run()
import copy


class _Hist:
    def __init__(self, backend_cls, case):
        case = copy.deepcopy(case)          # the two backends must not share variable lists
        self.mode = case["mode"]
        self.pipe = ProcessingPipeline.from_dict(pipeline_dict(case))
        self.backend = backend_cls(self.pipe) if self.mode == "convert" else backend_cls()

    def op(self, op):
        op = copy.deepcopy(op)
        k = op[0]
        if k == "set":
            self.pipe.vars[op[1]] = op[2]
        elif k == "del":
            self.pipe.vars.pop(op[1], None)
        elif k == "append":
            if isinstance(self.pipe.vars.get(op[1]), list):
                self.pipe.vars[op[1]].append(op[2])
        elif k == "override":
            self.pipe = self.pipe + ProcessingPipeline(vars=dict(op[1]))
            if self.mode == "convert":
                self.backend.processing_pipeline = self.pipe

    def step(self, st):
        try:
            rule = SigmaRule.from_dict(rule_dict(st))
        except Exception as e:
            return {"stage": "rule", **exc(e)}, {"stage": "rule", **exc(e)}
        try:
            if self.mode == "convert":
                q = self.backend.convert(SigmaCollection([rule]))
            else:
                self.pipe.apply(rule)
                q = self.backend.convert(SigmaCollection([rule]))
            qr = {"ok": q[0] if len(q) == 1 else repr(q)}
        except Exception as e:
            qr = exc(e)
        item = rule.detection.detections["sel"].detection_items[0]
        return {"vals": [enc_val(v) for v in item.value]}, qr


def run_history(case):
    a, i, b = _Hist(C17Backend, case), _Hist(C17InBackend, case), _Hist(TextQueryTestBackend, case)
    out = []
    for st in case["steps"]:
        a.op(st["op"]); i.op(st["op"]); b.op(st["op"])
        pr, qr = a.step(st)
        _, ir = i.step(st)
        _, sr = b.step(st)
        out.append({"pipe": pr, "q": qr, "qin": ir, "stock": sr})
    return {"steps": out}
