"""C15 - implementation side: runs an operation history against the working tree of pySigma and
reports, per operation, the API-observable result plus the internal state components the model
tracks; then repeats the last operation (the probe) in a fresh, interpreter-equivalent setup."""
from impl.excname import exc_name
from collections import defaultdict
import copy
import json
import yaml

from sigma.backends.test import TextQueryTestBackend
from sigma.collection import SigmaCollection
from sigma.exceptions import SigmaError
from sigma.filters import SigmaFilter
from sigma.modifiers import SigmaModifier
from sigma.processing.pipeline import ProcessingPipeline
from sigma.rule import SigmaRule

import atexit, os, shutil, tempfile
from sigma.processing.transformations.external import ExternalSourceBaseTransformation

os.environ.pop("PYSIGMA_ALLOW_EXTERNAL_SOURCES", None)   # process-wide switch: must not leak in from outside

# ---- external sources: local files in a private temporary directory (no network, no commands) ----
_DIR = tempfile.mkdtemp(prefix="c15_src_")
atexit.register(shutil.rmtree, _DIR, True)
for _name, _text in {"hosts.txt": "a\nb\n", "one.txt": "a\n", "empty.txt": "", "hosts.csv": "host,ip\na,1\nb,2\n",
                     "bad.json": "{not json", "ok.json": '{"items": ["a", "b"], "n": {"x": 1}}',
                     "bad.yaml": "a: [1, 2", "ok.yaml": "items:\n  - b\n  - a\n"}.items():
    with open(os.path.join(_DIR, _name), "w") as _f:
        _f.write(_text)

def source_params(src):
    """parameters of a file_placeholders transformation for a source description of props/c15.py SOURCES"""
    t = {"path": os.path.join(_DIR, src["file"])}
    for k in ("format", "csv_column", "jq_expression", "filter"):
        if src.get(k) is not None: t[k] = src[k]
    return t

import sigma.modifiers as _mods
from sigma.types import SigmaNumber, SigmaString, SigmaRegularExpression

# class-level state of the modifier classes at import time: a fresh setup puts it back (whatever mechanism caches per class)
_MOD_CLASSES = [c for c in vars(_mods).values() if isinstance(c, type) and issubclass(c, SigmaModifier)]
_MOD_ATTRS = {c: set(vars(c)) for c in _MOD_CLASSES}
_MOD_TABLE = dict(_mods.modifier_mapping)
_MOD_RTABLE = dict(_mods.reverse_modifier_mapping)

# ---- module-level mutable objects of the sigma.* modules (registries, caches): recorded once per process; a fresh
# setup puts their content back, and growth during a history is reported as information ----
import importlib, pkgutil, sys, functools
import sigma as _sigma_pkg
for _m in pkgutil.walk_packages(_sigma_pkg.__path__, "sigma."):
    if _m.name.startswith(("sigma.cli", "sigma.data")):       # static tables / not part of the library
        continue
    try:
        importlib.import_module(_m.name)
    except Exception:   # noqa - optional dependencies
        pass
_MODULE_OBJS = []       # (module name, attribute, object, content at import time)
_LRU = []
for _name, _mod in sorted(sys.modules.items()):
    if _mod is None or not _name.startswith("sigma.") or _name.startswith("sigma.data"):
        continue
    for _attr, _v in list(vars(_mod).items()):
        if _attr.startswith("__") or getattr(_v, "__module__", _name) not in (_name, "builtins", "collections", None) and not isinstance(_v, (dict, list, set)):
            continue
        if isinstance(_v, (dict, list, set)) and not any(o is _v for _, _, o, _ in _MODULE_OBJS):
            _MODULE_OBJS.append((_name, _attr, _v, copy.copy(_v)))
        elif hasattr(_v, "cache_clear") and hasattr(_v, "cache_info") and not any(o is _v for o in _LRU):
            _LRU.append(_v)

# class-level mutable objects (dict / list / set attributes) of every class defined in the sigma.* modules
_CLASS_OBJS = []
_seen_cls = set()
for _name, _mod in sorted(sys.modules.items()):
    if _mod is None or not _name.startswith("sigma.") or _name.startswith("sigma.data"):
        continue
    for _c in list(vars(_mod).values()):
        if not isinstance(_c, type) or _c in _seen_cls or not getattr(_c, "__module__", "").startswith("sigma."):
            continue
        _seen_cls.add(_c)
        import enum
        if issubclass(_c, enum.Enum):
            continue
        for _attr, _v in list(vars(_c).items()):
            if _attr.startswith("__") or _attr.startswith("_abc"):
                continue
            if isinstance(_v, (dict, list, set)) and not any(o is _v for _, _, o, _ in _CLASS_OBJS):
                _CLASS_OBJS.append((_c, _attr, _v, copy.copy(_v)))

def _restore(obj, content):
    if isinstance(obj, dict):
        obj.clear(); obj.update(content)
    elif isinstance(obj, list):
        obj[:] = content
    else:
        obj.clear(); obj.update(content)

def parse_cache_info():
    """hit / miss counters of the condition parse cache if it is the lru_cache the model describes, else None"""
    import sigma.conditions as _c
    f = getattr(_c, "_parse_condition_string", None)
    if f is not None and hasattr(f, "cache_info"):
        ci = f.cache_info()
        return {"hits": ci.hits, "misses": ci.misses, "cached": ci.currsize}
    return None

def reset_module_state():
    for _, _, obj, content in _CLASS_OBJS:
        _restore(obj, content)
    for _, _, obj, content in _MODULE_OBJS:
        if isinstance(obj, dict):
            obj.clear(); obj.update(content)
        elif isinstance(obj, list):
            obj[:] = content
        else:
            obj.clear(); obj.update(content)
    for f in _LRU:
        f.cache_clear()

def module_growth():
    """module-level objects whose size differs from the size at import time (information, not a verdict)"""
    return sorted(f"{m}.{a}" for m, a, obj, content in _MODULE_OBJS if len(obj) != len(content))

def reset_modifier_state():
    for c in _MOD_CLASSES:
        for name in set(vars(c)) - _MOD_ATTRS[c]:
            delattr(c, name)
    cache = getattr(SigmaModifier, "_type_hint_cache", None)
    if isinstance(cache, dict):
        cache.clear()
    _mods.modifier_mapping.clear(); _mods.modifier_mapping.update(_MOD_TABLE)
    _mods.reverse_modifier_mapping.clear(); _mods.reverse_modifier_mapping.update(_MOD_RTABLE)

def register_lcontains():
    """a modifier a plugin could register: contains that also takes numbers (wider value type than its base class)"""
    class LContains(_mods.SigmaContainsModifier):
        def modify(self, val: SigmaString | SigmaRegularExpression | SigmaNumber) -> SigmaString | SigmaRegularExpression:
            if isinstance(val, SigmaNumber):
                val = SigmaString(str(val))
            return super().modify(val)
    _mods.modifier_mapping["lcontains"] = LContains
    _mods.reverse_modifier_mapping["LContains"] = "lcontains"
    return LContains

def cached_hint_classes(extra):
    """names of the modifier classes for which a type hint is cached now, if the cache is the class-level dict the model
    describes; None when the implementation keeps that information elsewhere (then this internal is not compared)"""
    cache = getattr(SigmaModifier, "_type_hint_cache", None)
    if isinstance(cache, dict):
        return [k.__name__ for k in cache]
    return None

FMT = ["default", "test", "state", "fields"]
PRODUCT = [None, "windows", "linux"]

# ---- pipeline definitions (YAML); the same catalogue is emitted as Coq terms by props/c15.py ----
def _item(d):
    t = {"type": d["type"]}
    if d.get("id"): t["id"] = d["id"]
    if d["type"] == "set_state":
        t["key"], t["val"] = d["key"], d["val"]
    elif d["type"] == "field_name_mapping":
        t["mapping"] = dict(d["mapping"])
    elif d["type"] == "rule_failure":
        t["message"] = "unsupported"
    elif d["type"] == "file_placeholders":
        t.update(source_params(d["source"]))
    elif d["type"] == "value_placeholders":
        pass
    elif d["type"] == "set_field":
        t["fields"] = list(d["fields"])
    elif d["type"] in ("add_field", "remove_field"):
        t["field"] = list(d["field"]) if isinstance(d["field"], list) else d["field"]
    elif d["type"] == "set_custom_attribute":
        t["attribute"], t["value"] = d["attribute"], d["value"]
    elif d["type"] == "change_logsource":
        t["product"] = PRODUCT[d["product"]]
    c = d.get("cond")
    if c is not None:
        if c[0] == "product":
            t["rule_conditions"] = [{"type": "logsource", "product": PRODUCT[c[1]]}]
        elif c[0] == "state":
            t["rule_conditions"] = [{"type": "processing_state", "key": c[1], "val": c[2]}]
    return t

def _post(d):
    """query postprocessing item of a pipeline definition -> YAML form (readers-check items come in YAML form already)"""
    if "template" in d and d["type"] != "nest" and "key" not in d:
        return dict(d)
    t = {"type": d["type"], "id": d["id"]}
    if d["type"] == "embed":
        t["prefix"] = d["prefix"]
    elif d["type"] == "template":
        t["template"] = "ix=[{{ pipeline.state." + d["key"] + " }}] {{ query }}"
    elif d["type"] == "nest":
        t["items"] = [_post(x) for x in d["items"]]
    c = d.get("cond")
    if c is not None:
        if c[0] == "product":
            t["rule_conditions"] = [{"type": "logsource", "product": PRODUCT[c[1]]}]
        elif c[0] == "state":
            t["rule_conditions"] = [{"type": "processing_state", "key": c[1], "val": c[2]}]
    return t

def _has_nest(pd):
    return isinstance(pd, dict) and any(x.get("type") == "nest" for x in pd.get("post", []))

def _post_obj(d):
    """postprocessing item object through the Python API (the `nest` type cannot be loaded from a dict: its constructor
    gets the nested items as dicts)"""
    from sigma.processing.pipeline import QueryPostprocessingItem
    from sigma.processing.postprocessing import NestedQueryPostprocessingTransformation
    from sigma.processing.conditions import LogsourceCondition, RuleProcessingStateCondition
    if d["type"] != "nest":
        return QueryPostprocessingItem.from_dict(_post(d))
    conds = []
    c = d.get("cond")
    if c is not None:
        conds = [LogsourceCondition(product=PRODUCT[c[1]])] if c[0] == "product" else [RuleProcessingStateCondition(c[1], c[2])]
    return QueryPostprocessingItem(identifier=d["id"], rule_conditions=conds,
                                   transformation=NestedQueryPostprocessingTransformation(items=[_post_obj(x) for x in d["items"]]))

def pd_items(pd):
    """a pipeline definition is a list of items, or {"items": [...], "vars": {...}}"""
    return pd["items"] if isinstance(pd, dict) else pd

def pd_vars(pd):
    return pd.get("vars", {}) if isinstance(pd, dict) else {}

def pipeline_yaml(pd):
    d = {"name": "p", "priority": 10, "transformations": [_item(d) for d in pd_items(pd)]}
    if pd_vars(pd):
        d["vars"] = {k: (list(v) if isinstance(v, list) else v) for k, v in pd_vars(pd).items()}
    if isinstance(pd, dict) and pd.get("post") and not _has_nest(pd):
        d["postprocessing"] = [_post(x) for x in pd["post"]]
    if isinstance(pd, dict) and pd.get("fin"):
        d["finalizers"] = [dict(x) for x in pd["fin"]]
    return yaml.safe_dump(d)

def allowed(items):
    """external sources are enabled per pipeline load; a definition with a source marked allow=False is loaded without"""
    return all(d.get("source", {}).get("allow", True) for d in items)

_PARSED = {}
def _parsed(text):
    """YAML text -> parsed document (parsed once per process, deep-copied per use: PyYAML dominates the run time otherwise)"""
    if text not in _PARSED:
        _PARSED[text] = yaml.safe_load(text)
    return copy.deepcopy(_PARSED[text])

_PIPE_YAML = {}
def make_pipeline(pd):
    """a new ProcessingPipeline object (new item objects, new vars dict) from the same definition"""
    key = json.dumps(pd, sort_keys=True)
    if key not in _PIPE_YAML:
        _PIPE_YAML[key] = pipeline_yaml(pd)
    doc = _parsed(_PIPE_YAML[key])
    if not _has_nest(pd):
        return ProcessingPipeline.from_dict(doc, allow_external_sources=allowed(pd_items(pd)))
    # `nest` postprocessing items exist through the Python API only: all members are created unbound and handed to the constructor
    from sigma.processing.pipeline import ProcessingItem
    items = [ProcessingItem.from_dict(d, allow_external_sources=allowed(pd_items(pd))) for d in doc.get("transformations", [])]
    return ProcessingPipeline(items=items, postprocessing_items=[_post_obj(x) for x in pd["post"]], vars=doc.get("vars", {}),
                              priority=doc.get("priority", 0), name=doc.get("name"))

TEMPLATE_ATTRS = ["eq_expression", "re_expression", "cidr_expression", "startswith_expression",
                  "case_sensitive_startswith_expression", "endswith_expression",
                  "case_sensitive_endswith_expression", "contains_expression",
                  "case_sensitive_contains_expression"]

def _finalize_query_fields(self, rule, query, index, state):
    """output format of the harness classes that emits what a backend with a field-list / table clause emits: the
    processed rule's field list, its custom attributes and its log source"""
    return (self.finalize_query_default(rule, query, index, state) + " | fields=" + ",".join(rule.fields)
            + " attrs=" + ",".join(f"{k}:{v}" for k, v in rule.custom_attributes.items())
            + " product=" + str(rule.logsource.product))

def _finalize_output_fields(self, queries):
    return self.finalize_output_default(queries)

def item_configs(pipes):
    """public configuration of every transformation object (must never change)"""
    out = []
    for p in pipes:
        for it in list(p.items) + list(p.postprocessing_items):
            out.append({k: v for k, v in vars(it.transformation).items()
                        if not k.startswith("_") and k not in ("processing_item",)})
    return out

def class_dicts(classes):
    """every mutable class attribute (dict / list / set) of the backend classes and their bases, as text; pipelines and
    the per-format pipeline table (a defaultdict that grows on lookup) are looked at separately"""
    out = {}
    seen = set()
    for c in classes:
        for k in c.__mro__:
            if k in seen or k is object: continue
            seen.add(k)
            for name, v in vars(k).items():
                if name in ("output_format_processing_pipeline", "__dict__", "__annotations__", "__abstractmethods__", "_abc_impl"): continue
                if isinstance(v, (dict, list, set)):
                    out[k.__name__ + "." + name] = v
    return {k: _canon(v) for k, v in out.items()}

def class_dicts_ok(now, base):
    """no entry that existed at setup was changed or removed (a class-level memo may grow: that is information)"""
    for name, b in base.items():
        n = now.get(name)
        if n is None: return False
        if isinstance(b, list) and b and isinstance(b[0], tuple) and len(b[0]) == 2:      # dict: (key, value) pairs
            if not set(map(repr, b)) <= set(map(repr, n)): return False
        elif isinstance(b, list):                                                        # list: prefix; set: subset
            if n[:len(b)] != b and not set(map(repr, b)) <= set(map(repr, n)): return False
    return True

def _canon(v):
    if isinstance(v, dict): return sorted((repr(k), _canon(x)) for k, x in v.items())
    if isinstance(v, (list, tuple)): return [_canon(x) for x in v]
    if isinstance(v, (set, frozenset)): return sorted(repr(x) for x in v)
    return repr(v)

def make_class(k, cdef):
    """a new backend class object per case (class attributes are part of the state under test)"""
    attrs = {
        "convert_or_as_in": False, "convert_and_as_in": False,
        "formats": dict(TextQueryTestBackend.formats, fields="query + field list"),
        "finalize_query_fields": _finalize_query_fields, "finalize_output_fields": _finalize_output_fields,
        "backend_processing_pipeline": make_pipeline({"items": cdef["bk"], "vars": cdef.get("bkvars", {})}),
        "output_format_processing_pipeline": defaultdict(
            ProcessingPipeline, **{FMT[int(f)]: make_pipeline({"items": cdef["fmt"].get(f, []), "vars": cdef.get("fmtvars", {}).get(f, {})})
                                   for f in set(cdef["fmt"]) | set(cdef.get("fmtvars", {}))}),
    }
    if cdef.get("qexpr"):
        attrs["query_expression"] = "idx={state[" + cdef["qexpr"] + "]} | {query}"
    if "sdef" in cdef:
        attrs["state_defaults"] = dict(cdef["sdef"])      # the class's own dict; otherwise the one of TextQueryBackend is inherited
    if cdef["ne"]:
        attrs.update({"convert_not_as_not_eq": True, "not_eq_token": "!=",
                      "not_startswith_expression": "{field} not_startswith {value}",
                      "not_contains_expression": "{field} not_contains {value}"})
    return type(f"C15Backend{k}", (TextQueryTestBackend,), attrs)

# ---- rules ----
def rule_doc(r, n):
    if r.get("raw") is not None:
        return _parsed(r["raw"])
    det = {}
    for name, items in r["dets"]:
        d = {}
        for field, kind, text in items:
            if kind == "num": d[field] = int(text)
            elif kind == "str": d[field] = text
            elif kind == "star": d[field] = text + "*"
            elif kind == "sw": d[field + "|startswith"] = text
            elif kind == "ph": d[field + "|expand"] = "%" + text + "%"
            elif kind == "re": d[field + "|re"] = text
            elif kind == "ct": d[field + "|contains"] = text
            elif kind == "lc": d[field + "|lcontains"] = int(text) if text.isdigit() else text
            else: raise ValueError(kind)
        det[name] = d
    if r["conds"]:
        # a new list: the rule object keeps the list it is given and filters rewrite it in place
        det["condition"] = list(r["conds"]) if len(r["conds"]) > 1 else r["conds"][0]
    doc = {"title": f"rule {n}", "logsource": ({"product": PRODUCT[r["product"]]} if r["product"] else {"category": "c"}),
           "detection": det}
    if r.get("fields"):
        doc["fields"] = list(r["fields"])
    return doc

def _det(items):
    d = {}
    for field, kind, text in items:
        if kind == "num": d[field] = int(text)
        elif kind == "str": d[field] = text
        elif kind == "star": d[field] = text + "*"
        else: raise ValueError(kind)
    return d

def filter_doc(f, n):
    flt = {"rules": "any"}
    for name, items in f["dets"]:
        flt[name] = _det(items)
    flt["condition"] = f["cond"]
    return {"title": f"filter {n}", "logsource": {"product": PRODUCT[f["product"]]}, "filter": flt}

def _plain(v):
    return json.dumps(v, sort_keys=True, default=str)

def err(e):
    return ["err", exc_name(e), isinstance(e, SigmaError)]

def canon_fm(fm):
    return sorted([("" if k is None else k), sorted(v)] for k, v in fm.items())

class World:
    def __init__(self, case):
        reset_module_state()
        reset_modifier_state()
        self.lcontains = register_lcontains()
        self.classes = [make_class(k, c) for k, c in enumerate(case["classes"])]
        self.orig = [{a: getattr(c, a) for a in TEMPLATE_ATTRS} for c in self.classes]
        self.users = [make_pipeline(case["pdefs"][d]) for d in case["users"]]
        self.backends = []
        self.n = 0
        pipes = list(self.users)
        for c in self.classes:
            pipes.append(c.backend_processing_pipeline)
            pipes += list(c.output_format_processing_pipeline.values())
        self.src_vars = [(p, copy.deepcopy(p.vars)) for p in pipes]
        self.pipes = pipes
        self.cls0 = class_dicts(self.classes)
        self.cfg0 = _plain(item_configs(pipes))     # a string: nothing is shared with the objects

    def load(self, r):
        self.n += 1
        return SigmaRule.from_dict(rule_doc(r, self.n))

    def internals(self):
        ci = parse_cache_info()
        vc = []
        # vars of the pipeline definitions' own objects must never change (only the merged copy is updated)
        src_vars_ok = (all(_plain(p.vars) == _plain(v) for p, v in self.src_vars)
                       # ... nor the configuration of any transformation object (set_field list, mappings, values ...)
                       and _plain(item_configs(self.pipes)) == self.cfg0
                       # ... nor any class-level dict / list of the backend classes (state_defaults, formats, ...)
                       and class_dicts_ok(class_dicts(self.classes), self.cls0))
        for p in self.users:       # file_placeholders objects of the user pipeline objects, in order
            for it in p.items:
                if isinstance(it.transformation, ExternalSourceBaseTransformation):
                    if vc is None or not hasattr(it.transformation, "_values_cache"):
                        vc = None       # the value cache is kept elsewhere: not observed
                        continue
                    c = it.transformation._values_cache
                    vc.append(None if c is None else [str(x) for x in c])
        return {"cache": ci, "vc": vc, "grown": module_growth(),
                "hints": cached_hint_classes([self.lcontains]),
                "tpl_ok": src_vars_ok and all(getattr(c, a) == o[a] for c, o in zip(self.classes, self.orig) for a in TEMPLATE_ATTRS)
                          # set on the class by TextQueryBackend.__new__: constant once an instance exists
                          and all(type(b).explicit_not_exists_expression == (type(b).field_not_exists_expression is not None)
                                  for b in self.backends if b is not None)}

    def snap(self, b):
        p = getattr(self.backends[b], "last_processing_pipeline", None) if self.backends[b] is not None else None
        if p is None:
            return None
        return {"applied": list(p.applied), "ids": sorted(p.applied_ids),
                "state": sorted([k, str(v)] for k, v in p.state.items()),
                "fmap": canon_fm(p.field_mappings),
                "fna": sorted([k, sorted(v)] for k, v in p.field_name_applied_ids.items())}

    def step(self, op):
        kind = op[0]
        out = {}
        if kind == "load":
            try:
                self.load(op[1]); out["r"] = ["ok"]
            except Exception as e:   # noqa - whatever the code under test raises is the outcome of the operation
                out["r"] = err(e)
        elif kind == "new":
            cls, user, collect = op[1:4]
            opts = op[4] if len(op) > 4 else {}      # backend options: keyword arguments of the constructor
            self.backends.append(None)
            try:
                self.backends[-1] = self.classes[cls](self.users[user] if user is not None else None, collect_errors=collect, **opts)
                out["r"] = ["ok"]
            except Exception as e:   # noqa
                out["r"] = err(e)
        elif kind == "init":
            _, b, fmt = op
            try:
                self.backends[b].init_processing_pipeline(FMT[fmt])
                out["r"] = ["ok"]
            except Exception as e:   # noqa
                out["r"] = err(e)
            out["snap"] = self.snap(b)
        elif kind in ("rule", "coll", "collf"):
            b, fmt = op[1], op[-1]
            bk = self.backends[b]
            nerr = len(bk.errors) if bk is not None else 0
            try:
                if kind == "rule":
                    rule = self.load(op[2])
                    q = bk.convert_rule(rule, FMT[fmt])
                else:
                    rules = [self.load(r) for r in op[2]]
                    if kind == "collf":   # one filter document in the same collection, applied to every matching rule
                        self.n += 1
                        rules.append(SigmaFilter.from_dict(filter_doc(op[3], self.n)))
                    q = bk.convert(SigmaCollection(rules), FMT[fmt])
                out["r"] = ["q", [x if isinstance(x, str) else repr(x) for x in (q if isinstance(q, list) else [q])]]
            except Exception as e:  # noqa
                out["r"] = err(e)
            out["errs"] = [exc_name(e) for _, e in bk.errors[nerr:]] if bk is not None else []
            out["snap"] = self.snap(b)
        else:
            raise ValueError(kind)
        out["int"] = self.internals()
        return out

def run_history(case):
    w = World(case)
    outs = [w.step(op) for op in case["ops"]]
    # the probe (= last operation) in a fresh setup: new class objects, new pipeline objects from the
    # same YAML, cleared caches, one new backend with the configuration of the probed backend
    probe = case["ops"][-1]
    fresh, each = None, []
    if probe[0] in ("rule", "coll", "collf"):
        news = [op for op in case["ops"] if op[0] == "new"]
        new_op = ["new"] + news[probe[1]][1:]
        f = World(case)
        f.step(new_op)
        fresh = f.step([probe[0], 0] + probe[2:])
        if probe[0] != "rule":
            # every rule of the collection on its own (with the filter), each in its own fresh setup
            for r in probe[2]:
                f = World(case)
                f.step(new_op)
                each.append(f.step([probe[0], 0, [r]] + probe[3:]))
    return {"outs": outs, "fresh": fresh, "each": each}


# ---- pipeline registry objects (sigma/pipelines/base.py): definitions in some order, then calls ----
def run_registry(case):
    """case["defs"]: list of ["dec", name] (function decorated with @Pipeline) / ["sub", name] (subclass of Pipeline
    with apply()); afterwards every definition is resolved the way the plugin registry does (call the decorated
    object / instantiate the subclass and call it) and the name of the ProcessingPipeline it yields is reported"""
    from sigma.pipelines.base import Pipeline
    objs = []
    for kind, name in case["defs"]:
        if kind == "dec":
            def f(name=name):
                return ProcessingPipeline(name=name)
            objs.append(Pipeline(f))
        else:
            cls = type("P_" + name, (Pipeline,), {"apply": (lambda self, name=name: ProcessingPipeline(name=name))})
            objs.append(cls)
    out = []
    for o in objs:
        inst = o() if isinstance(o, type) else o
        r = inst() if not isinstance(inst, ProcessingPipeline) else inst
        out.append(r.name if isinstance(r, ProcessingPipeline) else repr(type(r)))
    return {"names": out}
