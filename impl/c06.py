"""C06 implementation side: serialise / load round trips on the working tree of pySigma."""
from impl.excname import exc_name
import copy, datetime, json, random
import yaml
from sigma.rule import SigmaRule, SigmaDetections, SigmaDetection, SigmaDetectionItem
from sigma.correlations import SigmaCorrelationRule
from sigma.filters import SigmaFilter
from sigma.collection import SigmaCollection
from sigma.backends.test import TextQueryTestBackend
from sigma.exceptions import SigmaError
from sigma.conditions import ConditionOR
from sigma.modifiers import reverse_modifier_mapping
from sigma.processing.pipeline import ProcessingPipeline
from sigma.types import (SigmaString, SigmaNumber, SigmaBool, SigmaNull, SigmaRegularExpression, SigmaExists,
                         SigmaTimestampPart, NoPlainConversionMixin, SpecialChars, Placeholder)


class Backend(TextQueryTestBackend):
    # no in-list folding: a merged |all item and the AND of the items it came from have the same text
    convert_or_as_in = False
    convert_and_as_in = False


def jsonable(x):
    return json.loads(json.dumps(x, default=lambda o: {"__repr__": repr(o)}))


def outcome(f):
    try:
        return {"ok": jsonable(f())}
    except SigmaError as e:
        return {"err": exc_name(e), "msg": str(e)[:120]}
    except Exception as e:  # noqa
        return {"crash": exc_name(e), "msg": str(e)[:120]}


# ---- canonical form of a test-backend query: operands of and / or sorted, same operators flattened.
# The merge of items with the same key moves the merged item to the end of its mapping; the property
# is indifferent to the order of operands.
def _words(q):
    out, cur, i, n = [], "", 0, len(q)
    def flush():
        nonlocal cur
        if cur: out.append(cur); cur = ""
    while i < n:
        c = q[i]
        if c == '"':
            j = i + 1
            while j < n and q[j] != '"':
                j += 2 if q[j] == "\\" and j + 1 < n else 1
            cur += q[i:j + 1]; i = j + 1
        elif c == "/" and cur.endswith("="):
            j = i + 1
            while j < n and q[j] != "/":
                j += 2 if q[j] == "\\" and j + 1 < n else 1
            cur += q[i:j + 1]; i = j + 1
        elif c == "(" and cur:                     # function-like: fieldref(x)
            j = q.find(")", i)
            j = n - 1 if j < 0 else j
            cur += q[i:j + 1]; i = j + 1
        elif c in "()":
            flush(); out.append(c); i += 1
        elif c == " ":
            flush(); i += 1
        else:
            cur += c; i += 1
    flush()
    return out


def _canon_line(q):
    toks = _words(q)
    pos = 0
    def peek(): return toks[pos] if pos < len(toks) else None
    def parse_or():
        nonlocal pos
        xs = [parse_and()]
        while peek() == "or":
            pos += 1; xs.append(parse_and())
        return ("or", xs) if len(xs) > 1 else xs[0]
    def parse_and():
        nonlocal pos
        xs = [parse_not()]
        while peek() == "and":
            pos += 1; xs.append(parse_not())
        return ("and", xs) if len(xs) > 1 else xs[0]
    def parse_not():
        nonlocal pos
        if peek() == "not":
            pos += 1
            return ("not", [parse_not()])
        if peek() == "(":
            pos += 1
            x = parse_or()
            if peek() == ")": pos += 1
            return x
        ws = []
        while peek() is not None and peek() not in ("and", "or", "not", "(", ")"):
            ws.append(toks[pos]); pos += 1
        if not ws and peek() is not None:        # stray token: keep it so that nothing is dropped
            ws.append(toks[pos]); pos += 1
        return ("atom", " ".join(ws))
    def flat(t):
        if t[0] in ("and", "or"):
            xs = []
            for x in map(flat, t[1]):
                xs += x[1] if x[0] == t[0] else [x]
            return (t[0], xs)
        if t[0] == "not": return ("not", [flat(t[1][0])])
        return t
    def show(t):
        if t[0] == "atom": return t[1]
        if t[0] == "not": return "not " + (show(t[1][0]) if t[1][0][0] in ("atom", "not") else "(" + show(t[1][0]) + ")")
        parts = sorted(show(x) if x[0] in ("atom", "not") else "(" + show(x) + ")" for x in t[1])
        return (" " + t[0] + " ").join(parts)
    t = parse_or()
    rest = " ".join(toks[pos:])
    return show(flat(t)) + ((" ## " + rest) if rest else "")


def canon_query(q):
    return "\n".join(l if l.startswith("|") else _canon_line(l) for l in q.split("\n"))


def query_of(f):
    try:
        return canon_query("\n".join(str(x) for x in f()))
    except Exception as e:  # noqa
        return "ERR:" + exc_name(e)


def q_of_det(det):
    def go():
        r = SigmaRule.from_dict({"title": "t", "logsource": {"category": "c"}, "detection": copy.deepcopy(det)})
        return Backend().convert_rule(r)
    return query_of(go)


# ---------------------------------------------------------------- suite det
def reload_outcome(f):
    try:
        r2 = f()
        return outcome(lambda: r2.to_dict())
    except SigmaError as e:
        return {"err": exc_name(e), "msg": str(e)[:120], "stage": "reload"}
    except Exception as e:  # noqa
        return {"crash": exc_name(e), "msg": str(e)[:120], "stage": "reload"}


def run_det(case):
    det = case["det"]
    arg = copy.deepcopy(det)
    r = SigmaDetections.from_dict(arg)       # not loadable: the runner records the exception, case skipped
    raw = None
    def first():
        nonlocal raw
        raw = r.to_dict()
        return raw
    d1 = outcome(first)
    # from_dict gets the caller's dict by reference: the argument after the call is part of the observation
    res = {"d1": d1, "q1": q_of_det(det), "a1": jsonable(arg)}
    if "ok" in d1:
        # the written dict itself is loaded (no copy), looked at afterwards, and loaded a second time
        res["d2"] = reload_outcome(lambda: SigmaDetections.from_dict(raw))
        res["w1"] = {"ok": jsonable(raw)}
        res["d2b"] = reload_outcome(lambda: SigmaDetections.from_dict(raw))
        res["q2"] = q_of_det(d1["ok"])
    return res


# ---------------------------------------------------------------- suite hist
def enc_parts(parts):
    out = []
    for p in parts:
        if isinstance(p, str): out.append(["s", p])
        elif p == SpecialChars.WILDCARD_MULTI: out.append(["m"])
        elif p == SpecialChars.WILDCARD_SINGLE: out.append(["q"])
        elif isinstance(p, Placeholder): out.append(["p", p.name])
        else: out.append(["?", repr(p)])
    return out


def enc_val(v):
    if isinstance(v, NoPlainConversionMixin): return {"np": 1}
    if isinstance(v, SigmaString): return {"s": enc_parts(v.s)}
    if isinstance(v, SigmaTimestampPart): return {"x": "timestamp_part"}
    if isinstance(v, SigmaNumber):
        return {"i": v.number} if isinstance(v.number, int) else {"fl": repr(v.number)}
    if isinstance(v, SigmaBool): return {"b": v.boolean}
    if isinstance(v, SigmaExists): return {"b": v.exists}
    if isinstance(v, SigmaNull): return {"n": 1}
    if isinstance(v, SigmaRegularExpression): return {"re": enc_parts(v.regexp.s)}
    return {"x": type(v).__name__}


def enc_item(i):
    return {"f": i.field, "m": [reverse_modifier_mapping[m.__name__] for m in i.modifiers],
            "o": None if i.original_value is None else [enc_val(v) for v in i.original_value]}


def enc_det(d):
    types = {type(x) for x in d.detection_items}
    if len(types) > 1: return {"mixed": 1}
    if types == {SigmaDetection}:
        if d.item_linking is not ConditionOR and len(d.detection_items) > 1:
            return {"mixed": 1}     # AND-linked nested detections: not expressible either
        return {"subs": [enc_det(x) for x in d.detection_items]}
    return {"items": [enc_item(x) for x in d.detection_items], "or": d.item_linking is ConditionOR}


def run_hist(case):
    random.seed(0)
    rule = SigmaRule.from_dict({"title": "t", "logsource": {"category": "c"}, "fields": ["f"],
                                "detection": copy.deepcopy(case["det"])})
    pipe = ProcessingPipeline.from_dict({"name": "p", "priority": 10, "vars": case.get("vars", {}),
                                         "transformations": [dict(case["tr"], id="t1")]})
    pipe.apply(rule)                                       # a failing transformation: case skipped
    state = {"dets": [[n, enc_det(d)] for n, d in rule.detection.detections.items()],
             "cond": list(rule.detection.condition)}
    d1 = outcome(lambda: rule.detection.to_dict())
    qt = query_of(lambda: Backend().convert_rule(rule))
    res = {"state": state, "d1": d1, "qt": qt}
    if "ok" in d1:
        res["qr"] = q_of_det(d1["ok"])
    return res


# ---------------------------------------------------------------- suite doc
KINDS = {"rule": SigmaRule, "corr": SigmaCorrelationRule, "filter": SigmaFilter}
META = ["title", "id", "status", "level", "author", "description", "name", "references", "fields",
        "falsepositives", "scope", "tags", "date", "modified", "taxonomy", "related", "license"]


def undate(x):
    if isinstance(x, dict):
        if "__date__" in x: return datetime.date.fromisoformat(x["__date__"])
        if "__datetime__" in x: return datetime.datetime.fromisoformat(x["__datetime__"])
        return {k: undate(v) for k, v in x.items()}
    if isinstance(x, list): return [undate(v) for v in x]
    return x


def shape(v):
    if v is None: return 0
    if isinstance(v, (list, tuple, dict)) and len(v) == 0: return 1
    return 2


def q_of_docs(base, doc):
    def go():
        random.seed(0)
        coll = SigmaCollection.from_dicts([copy.deepcopy(b) for b in base] + [copy.deepcopy(doc)])
        return Backend().convert(coll)
    return query_of(go)


def canon(x):
    return json.dumps(x, sort_keys=True, default=repr)


def run_doc(case):
    cls = KINDS[case["kind"]]
    doc = undate(case["doc"])
    base = [undate(b) for b in case.get("base", [])]
    arg = copy.deepcopy(doc)
    a0 = canon(arg)
    obj = cls.from_dict(arg)               # not loadable: case skipped
    pur = [[a0, canon(arg)]]               # argument of from_dict before / after the call
    shapes = {f: shape(getattr(obj, f)) for f in META}
    custom = list(obj.custom_attributes.keys())
    d1raw = None
    def first():
        nonlocal d1raw
        d1raw = obj.to_dict()
        return d1raw
    d1 = outcome(first)
    res = {"shapes": shapes, "custom": custom, "d1": d1, "q1": q_of_docs(base, doc), "pur": pur, "again": []}
    if "ok" in d1:
        res["keys"] = list(d1raw.keys())
        # the nested writers: log source and correlation section (keys written, in order)
        if hasattr(obj, "logsource"):
            ls = obj.logsource
            res["sub"] = {"shapes": [shape(getattr(ls, f)) for f in ("category", "product", "service", "definition")],
                          "custom": list((ls.custom_attributes or {}).keys()), "flag": False,
                          "keys": list(d1raw["logsource"].keys())}
        else:
            res["sub"] = {"shapes": [], "custom": [], "flag": bool(obj.generate), "keys": list(d1raw["correlation"].keys())}
        # the written dict ITSELF is used from here on (no copies): loaded, looked at, loaded again, dumped as YAML
        w0 = canon(d1raw)
        res["d2"] = outcome(lambda: cls.from_dict(d1raw).to_dict())
        pur.append([w0, canon(d1raw)])
        res["again"].append(outcome(lambda: cls.from_dict(d1raw).to_dict()))
        pur.append([w0, canon(d1raw)])
        res["again"].append(outcome(lambda: cls.from_yaml(yaml.safe_dump(d1raw, sort_keys=False, allow_unicode=True)).to_dict()))
        res["again"].append(outcome(lambda: SigmaCollection.from_dicts([d1raw], collect_filters=True, resolve_references=False)))
        pur.append([w0, canon(d1raw)])
        res["again"][-1] = res["again"][-1] if "ok" not in res["again"][-1] else res["d2"]   # only: the collection loader accepts it and leaves it alone
        res["q2"] = q_of_docs(base, d1["ok"])
        objy = None
        def third():
            nonlocal objy
            objy = cls.from_yaml(yaml.safe_dump(d1["ok"], sort_keys=False, allow_unicode=True))
            return objy.to_dict()
        res["dy"] = outcome(third)
        res["qy"] = q_of_docs(base, objy.to_dict()) if objy is not None else "ERR:noobj"
        # object equality as observed through the public comparison (reported, not part of the verdict)
        try:
            res["same_obj"] = bool(cls.from_dict(copy.deepcopy(d1["ok"])) == obj)
        except Exception as e:  # noqa
            res["same_obj"] = "ERR:" + exc_name(e)
    return res
