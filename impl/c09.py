"""C09 implementation side: load a rule set in a given document order through one of the load paths,
convert it with the shipped TextQueryTestBackend and report what is observable through the API:
order of SigmaCollection.rules (by title), raised exception class + phase, list of emitted queries,
and the queries the conversion callback saw per rule (the rule's own queries)."""
from impl.excname import exc_name
import copy, json, os, tempfile, shutil, uuid
import yaml
from pathlib import Path
from sigma.collection import SigmaCollection
from sigma.backends.test import TextQueryTestBackend
from sigma.exceptions import SigmaError

LOGSOURCE = {"category": "test"}


def build(d):
    """abstract document -> Sigma rule dict"""
    out = {"title": d["t"]}
    if d.get("n") is not None:
        out["name"] = d["n"]
    if d.get("i") is not None:
        out["id"] = d["i"]
    if d["k"] == "f":
        # a filter that applies to no rule of the set (other log source category or unknown rule name)
        out["logsource"] = {"category": d["ls"]}
        out["filter"] = {"rules": list(d["rules"]), "selection": {"g": "x"}, "condition": "not selection"}
        return out
    if d["k"] == "p":
        det = {}
        conds = []
        for k, v in enumerate(d["v"]):
            det[f"s{k}"] = {"f": v}
            conds.append(f"s{k}")
        det["condition"] = conds if len(conds) != 1 else conds[0]
        out["logsource"] = dict(LOGSOURCE)
        out["detection"] = det
    else:
        c = {"type": d["ty"], "rules": list(d["refs"]), "group-by": [d["gb"]], "timespan": d["ts"]}
        if d.get("g") is not None:
            c["generate"] = d["g"]
        if d["ty"] == "event_count":
            c["condition"] = {"gte": d["cnt"]}
        out["correlation"] = c
    return out


def _exc(e, phase):
    return {"phase": phase, "exc": exc_name(e), "sigma": isinstance(e, SigmaError)}


def as_kind(items, kind):
    """hand the same items over as another kind of iterable (the API takes Iterable / list arguments)"""
    items = list(items)
    if kind == "tuple":
        return tuple(items)
    if kind == "gen":
        return (x for x in items)
    if kind == "map":
        return map(lambda x: x, items)
    if kind == "iter":
        return iter(items)
    if kind == "dictvalues":
        return {k: x for k, x in enumerate(items)}.values()
    return items


share_counter = [0]


def load(path, dicts, tmp, resolve=True, kind="list", share=False):
    """the collection, loaded through one of the load paths; resolve=False defers the resolution of
    references (resolve_references=False on every loader involved) to Backend.convert; kind = the kind of
    iterable handed to merge (collections), load_ruleset (paths) and from_dicts (sized kinds only)"""
    n = len(dicts)
    # share: the parsed documents of the case are handed over as they are (the SAME dict objects for every
    # order of the case); otherwise every load gets its own deep copy
    fresh = (lambda x: x) if share else copy.deepcopy
    if path == "alt":     # one history over the same documents through different load paths
        path = ("from_dicts", "merge", "from_yaml")[share_counter[0] % 3]
        share_counter[0] += 1
    if path == "from_dicts":
        k = kind if kind in ("list", "tuple", "dictvalues") else "tuple"     # from_dicts needs len()
        return SigmaCollection.from_dicts(as_kind(fresh(dicts), k), resolve_references=resolve)
    if path == "from_yaml":
        return SigmaCollection.from_yaml(yaml.safe_dump_all(dicts, sort_keys=False), resolve_references=resolve)
    if path == "merge":
        if kind == "gen":    # collections created while merge iterates
            cols = (SigmaCollection.from_dicts([fresh(x)], resolve_references=False, collect_filters=True) for x in dicts)
        else:
            cols = as_kind([SigmaCollection.from_dicts([fresh(x)], resolve_references=False, collect_filters=True)
                            for x in dicts], kind)
        return SigmaCollection.merge(cols, resolve_references=resolve)
    if path == "merge2":   # two unresolved multi-document collections
        h = n // 2
        cols = [SigmaCollection.from_yaml(yaml.safe_dump_all(part, sort_keys=False), resolve_references=False, collect_filters=True)
                for part in (dicts[:h], dicts[h:]) if part]
        return SigmaCollection.merge(as_kind(cols, kind), resolve_references=resolve)
    if path in ("ruleset", "ruleset2"):
        files = []
        if path == "ruleset":
            parts = [[x] for x in dicts]
        else:
            parts = [dicts[k:k + 2] for k in range(0, n, 2)]
        for k, part in enumerate(parts):
            p = Path(tmp) / f"r{k:03d}.yml"
            p.write_text(yaml.safe_dump_all(part, sort_keys=False), encoding="utf-8")
            files.append(p)
        return SigmaCollection.load_ruleset(as_kind(files, kind), resolve_references=resolve)
    raise ValueError(path)


NOOP_FILTER = {"title": "appended filter", "logsource": {"category": "other"},
               "filter": {"rules": ["nosuchrule"], "selection": {"g": "x"}, "condition": "not selection"}}


def titles(col):
    from sigma.filters import SigmaFilter
    return [r.title for r in col.rules if not isinstance(r, SigmaFilter)]


def convert_once(col, resolved):
    """one Backend.convert of the collection with a fresh backend; `resolved`: the references of the
    collection have been resolved successfully before"""
    own = []

    def cb(rule, fmt, index, cond, result):
        own.append([rule.title, result])
        return result
    try:
        qs = TextQueryTestBackend().convert(col, callback=cb)
    except Exception as e:  # noqa
        r = _exc(e, "convert")
        if r["exc"] == "SigmaRuleNotFoundError" and not resolved:
            r["phase"] = "load"       # deferred resolution: the reference is looked up when convert resolves
        return r
    return {"order_conv": titles(col), "queries": qs, "own": own}


def run_one(path, dicts, tmp, mode):
    """mode: {"resolve": references resolved while loading?, "conv": direct | explicit | twice | appendf,
              "it": kind of iterable handed to merge / load_ruleset / from_dicts (see as_kind)}
    returns a list of results (two for conv == "twice": the same collection object converted twice).
    order_load = order of collection.rules after the FIRST resolution of the references (while loading, by
    the explicit call, or by the first Backend.convert when everything was deferred)."""
    resolve, conv = mode.get("resolve", True), mode.get("conv", "direct")
    first = None
    try:
        col = load(path, dicts, tmp, resolve, mode.get("it", "list"), bool(mode.get("share")))
        if resolve:
            first = titles(col)
        if conv == "explicit":
            col.resolve_rule_references()
            if not resolve:
                first = titles(col)
            resolve = True
        elif conv == "appendf":
            from sigma.filters import SigmaFilter
            col.rules.append(SigmaFilter.from_dict(copy.deepcopy(NOOP_FILTER)))
    except Exception as e:  # noqa
        return [_exc(e, "load")] * (2 if conv == "twice" else 1)
    res = []
    for k in range(2 if conv == "twice" else 1):
        r = convert_once(col, resolve or (k > 0 and "exc" not in res[0]))
        if first is None:
            first = titles(col)
        r["order_load"] = first
        res.append(r)
    return res


def run_orders(case):
    """case: {"docs": [abstract documents], "perms": [[positions]], "path": load path, "mode": see run_one}.
    One result per permutation (two for mode conv == "twice"); query strings are interned in a table."""
    docs = [build(d) for d in case["docs"]]      # parsed once per case
    mode = case.get("mode") or {}
    share_counter[0] = 0
    tab, idx = [], {}

    def intern(q):
        if not isinstance(q, str):
            q = "<" + type(q).__name__ + ">"
        if q not in idx:
            idx[q] = len(tab)
            tab.append(q)
        return idx[q]
    res = []
    tmp = tempfile.mkdtemp(prefix="c09_")
    try:
        for p in case["perms"]:
            sub = os.path.join(tmp, "x")
            os.makedirs(sub, exist_ok=True)
            # the argument is observed before and after: loading must not change the caller's documents
            before = json.dumps(docs, sort_keys=True, default=repr)
            rs = run_one(case["path"], [docs[i] for i in p], sub, mode)
            arg_same = json.dumps(docs, sort_keys=True, default=repr) == before
            shutil.rmtree(sub, ignore_errors=True)
            out = []
            for r in rs:
                r = dict(r, arg_same=arg_same)
                if "queries" in r:
                    r["queries"] = [intern(q) for q in r["queries"]]
                    r["own"] = [[t, intern(q)] for t, q in r["own"]]
                out.append(r)
            res.append(out)
    finally:
        shutil.rmtree(tmp, ignore_errors=True)
    return {"tab": tab, "res": res}


def run_oldsort(case):
    """the ORIGINAL ordering step: sorted(rules) with SigmaRuleBase.__lt__ ('is referenced by'),
    on a collection whose references were resolved through the public API"""
    from sigma.correlations import SigmaCorrelationRule
    docs = [build(case["docs"][i]) for i in case["perm"]]
    col = SigmaCollection.from_dicts(copy.deepcopy(docs), resolve_references=False)
    rules = list(col.rules)
    try:
        for r in rules:
            if isinstance(r, SigmaCorrelationRule):
                r.resolve_rule_references(col)
        out = sorted(rules)
    except SigmaError:
        return {"skip": "unresolvable"}
    except TypeError:
        return {"skip": "rules are not comparable any more"}

    def pos(x):
        return next(i for i, y in enumerate(rules) if y is x)
    rr = [[pos(ref.rule) for ref in r.referenced_rules] if isinstance(r, SigmaCorrelationRule) else [] for r in rules]
    return {"rr": rr, "sorted": [pos(x) for x in out]}
