"""Implementation side of C19: builds rule objects from source documents, runs SigmaValidator over them
(validator set iteration order made explicit by replacing the set with a list of the same instances),
and compares dict form / converted queries before and after validation, validation after conversion,
the natural set order, and two orders of all built-in validators."""
from impl.excname import exc_name
import json
import random
from pathlib import Path
from uuid import UUID

from sigma.rule import SigmaRule
from sigma.correlations import SigmaCorrelationRule
from sigma.exceptions import SigmaRuleLocation
from sigma.validation import SigmaValidator
from sigma.validators.core import validators as ALL
from sigma.backends.test import TextQueryTestBackend

# validators that download MITRE data on first use (no network in the sandbox)
NETWORK = ("attacktag", "d3_fendtag")
BUILTIN = {n: c for n, c in ALL.items() if n not in NETWORK}

MODELLED = {
    "DanglingDetectionIssue": "detection_name", "DanglingConditionIssue": "condition_name",
    "IdentifierExistenceIssue": None, "IdentifierCollisionIssue": "identifier",
    "DuplicateTitleIssue": "title", "DuplicateFilenameIssue": "filename",
}


ISSUE_OF = {
    "dangling_detection": "DanglingDetectionIssue", "dangling_condition": "DanglingConditionIssue",
    "identifier_existence": "IdentifierExistenceIssue", "identifier_uniqueness": "IdentifierCollisionIssue",
    "duplicate_title": "DuplicateTitleIssue", "duplicate_filename": "DuplicateFilenameIssue",
}


def build_rule(d):
    src = SigmaRuleLocation(Path(*d["path"])) if d.get("path") else None
    if d.get("corr"):
        doc = {"title": d["title"], "correlation": {"type": "event_count", "rules": ["other"], "group-by": ["f"],
                                                    "timespan": "1m", "condition": {"gte": 1}}}
        if d.get("id"):
            doc["id"] = d["id"]
        if d.get("tags"):
            doc["tags"] = d["tags"]
        return SigmaCorrelationRule.from_dict(doc, source=src)
    det = {}
    for k, n in enumerate(d["dets"]):
        det[n] = d["items"][k % len(d["items"])] if d.get("items") else {"f": "v%d" % k}
    det["condition"] = d["conds"] if len(d["conds"]) != 1 else d["conds"][0]
    doc = {"title": d["title"], "logsource": d.get("logsource") or {"category": "test"}, "detection": det}
    if d.get("id"):
        doc["id"] = d["id"]
    for k in ("tags", "references", "status", "level", "name"):
        if d.get(k):
            doc[k] = d[k]
    for k, v in (d.get("custom") or {}).items():
        doc[k] = v
    return SigmaRule.from_dict(doc, source=src)


def build(case):
    return [build_rule(d) for d in case["rules"]]


def canon_issue(i, ids):
    name = type(i).__name__
    rules = [ids.index(id(r)) for r in i.rules]
    fields = {k: str(getattr(i, k)) for k in i.__dataclass_fields__ if k != "rules"}
    return [name, rules, fields]


def canon_issues(issues, rules):
    ids = [id(r) for r in rules]
    return [canon_issue(i, ids) for i in issues]


def multiset(cissues):
    return sorted(json.dumps([n, sorted(rs), f], sort_keys=True) for n, rs, f in cissues)


def exclusions(case):
    return {(UUID(i) if i is not None else None): {BUILTIN[n] for n in names} for i, names in case["excl"]}


def make_validator(names, case, ordered=True):
    v = SigmaValidator([BUILTIN[n] for n in names], exclusions(case))
    if ordered:   # the set of instances, iterated in the order of `names`
        by_cls = {type(x): x for x in v.validators}
        assert len(by_cls) == len(v.validators) == len(set(names))
        v.validators = [by_cls[BUILTIN[n]] for n in names]
    return v


def snapshot(rules, backend_cls=TextQueryTestBackend):
    out = []
    for r in rules:
        try:
            d = repr(r.to_dict())
        except Exception as e:  # noqa
            d = "EXC " + exc_name(e)
        if isinstance(r, SigmaCorrelationRule):
            q = "corr"
        else:
            try:
                q = repr(backend_cls().convert_rule(r))
            except Exception as e:  # noqa
                q = "EXC " + exc_name(e)
        out.append([d, q])
    return out


def run_coll(case):
    order = case["order"]
    vs = case["vs"]
    # 1. the run that is compared with the model: fresh rules, explicit validator order
    rules = build(case)
    before = [repr(r.to_dict()) for r in rules]
    v = make_validator(vs, case)
    issues = canon_issues(v.validate_rules([rules[i] for i in order]), rules)
    res = {"issues": [[n, rs, f.get(MODELLED[n]) if MODELLED[n] else None] for n, rs, f in issues if n in MODELLED]}
    pure = {}
    pure["dict_same_after_validation"] = before == [repr(r.to_dict()) for r in rules]
    # 2. conversion after validation equals conversion of untouched rules
    fresh = build(case)
    snap_fresh = snapshot(fresh)
    snap_validated = snapshot(rules)
    pure["convert_same_after_validation"] = snap_fresh == snap_validated
    # 3. validation after conversion gives the same issues (same validator order)
    v3 = make_validator(vs, case)
    issues3 = canon_issues(v3.validate_rules([fresh[i] for i in order]), fresh)
    pure["issues_same_after_conversion"] = issues3 == issues
    # 4. natural set order of the validator instances, source order of the rules
    #    (built through SigmaValidator.from_dict, the route a validation configuration file takes)
    r4 = build(case)
    v4 = SigmaValidator.from_dict({"validators": list(vs), "exclusions": {i: list(names) for i, names in case["excl"]}}, BUILTIN)
    pure["natural_set_order_same_multiset"] = multiset(canon_issues(v4.validate_rules(r4), r4)) == multiset(issues)
    # 5. all built-in validators (or the requested subset) in two orders, rules in two orders; purity again
    rng = random.Random(case.get("seed", 0))
    names = list(case.get("all_vs") or sorted(BUILTIN))
    if rng.random() < 0.4:   # a random subset of the built-in validators
        names = rng.sample(names, rng.randint(1, len(names)))
    o1 = names[:]
    rng.shuffle(o1)
    o2 = o1[::-1] if rng.random() < 0.5 else rng.sample(o1, len(o1))
    r5, r6 = build(case), build(case)

    def run_all(order_v, rs, order_r):
        try:
            return multiset(canon_issues(make_validator(order_v, case).validate_rules([rs[i] for i in order_r]), rs))
        except Exception as e:  # noqa
            return ["EXC " + exc_name(e)]
    m5 = run_all(o1, r5, order)
    m6 = run_all(o2, r6, list(range(len(r6))))
    pure["all_validators_order_independent"] = m5 == m6
    pure["all_validators_pure"] = snapshot(r5) == snap_fresh and snapshot(r6) == snap_fresh
    # the modelled validators' issues do not depend on which other validators are present
    if set(vs) <= set(names) and not (m5 and m5[0].startswith("EXC")):
        classes = {ISSUE_OF[n] for n in vs}
        mod5 = [x for x in m5 if json.loads(x)[0] in classes]
        mod1 = [x for x in multiset(issues) if json.loads(x)[0] in classes]
        pure["modelled_issues_independent_of_other_validators"] = mod5 == mod1
    res["pure"] = pure
    res["n_all_issues"] = len(m5)
    return res


def _modelled(cissues):
    return [[n, rs, f.get(MODELLED[n]) if MODELLED[n] else None] for n, rs, f in cissues if n in MODELLED]


PER_RULE = ("DanglingDetectionIssue", "DanglingConditionIssue", "IdentifierExistenceIssue")


def run_shared(case):
    """ONE SigmaValidator (explicit instance order) over rules that share ids / titles / file names and
    selector patterns; the same collection is validated twice by the same validator objects.  Also: every
    rule alone with fresh validator objects (what the rule must be told, whatever came before it)."""
    order = case["order"]
    vs = case["vs"]
    rules = build(case)
    seq = [rules[i] for i in order]
    v = make_validator(vs, case)
    first = canon_issues(v.validate_rules(seq), rules)
    second = canon_issues(v.validate_rules(seq), rules)
    res = {"issues": _modelled(first), "issues2": _modelled(second)}
    flags = {}
    # per rule, fresh validator objects
    alone = []
    for i in order:
        fresh = build(case)
        alone += [x for x in canon_issues(make_validator(vs, case).validate_rules([fresh[i]]), fresh) if x[0] in PER_RULE]
    flags["per_rule_issues_same_as_fresh_validators_per_rule"] = multiset(alone) == multiset([x for x in first if x[0] in PER_RULE])
    flags["per_rule_issues_same_in_second_run"] = multiset([x for x in first if x[0] in PER_RULE]) == multiset([x for x in second if x[0] in PER_RULE])
    # single validator objects (no SigmaValidator): validate() rule by rule in this order, then the reverse order
    # with fresh objects: the per-rule issues must be the same multiset
    def direct(idx):
        rs = build(case)
        out = []
        objs = [BUILTIN[n]() for n in vs]
        for i in idx:
            for o in objs:
                out += canon_issues(o.validate(rs[i]), rs)
        return multiset([x for x in out if x[0] in PER_RULE])
    if not case["excl"]:
        flags["validator_objects_order_of_rules_irrelevant"] = direct(order) == direct(order[::-1])
        flags["validator_objects_same_as_sigma_validator"] = direct(order) == multiset([x for x in first if x[0] in PER_RULE])
    flags["dict_same_after_two_validations"] = [repr(r.to_dict()) for r in rules] == [repr(r.to_dict()) for r in build(case)]
    res["pure"] = flags
    return res


TAG_MODELLED = ["tag_format", "tlpv1_tag", "tlpv2_tag", "tlptag", "duplicate_tag", "namespace_tag"]
TAG_ALL = TAG_MODELLED + ["cartag", "cvetag", "detection_tag", "stptag"]
TAG_ISSUES = {"InvalidTagFormatIssue": "TIFormat", "InvalidTLPTagIssue": "TITlp", "DuplicateTagIssue": "TIDup",
              "InvalidNamespaceTagIssue": "TINamespace"}


def _tag_rule(case):
    return SigmaRule.from_dict({"title": "T", "logsource": {"category": "test"},
                                "detection": {"sel": {"f": "v"}, "condition": "sel"}, "tags": list(case["tags"])})


def _run_tag_validators(names, rule):
    v = SigmaValidator([BUILTIN[n] for n in names])
    by_cls = {type(x): x for x in v.validators}
    v.validators = [by_cls[BUILTIN[n]] for n in names]
    out = []
    for i in v.validate_rules([rule]):
        t = getattr(i, "tag", None)
        # the tag is recorded as it reads when the run is over (issues hold the rule's own tag objects)
        out.append([type(i).__name__, t.namespace if t is not None else None, t.name if t is not None else None])
    return out


def run_tags(case):
    """One rule with tags, tag validators in an explicit order: issues, and the rule's tags afterwards as
    rule.to_dict() and the tag objects show them; plus all ten network-free tag validators in two orders."""
    rule = _tag_rule(case)
    before_dict = repr(rule.to_dict())
    before_objs = [[t.namespace, t.name] for t in rule.tags]
    issues = _run_tag_validators(case["vs"], rule)
    res = {"issues": [[TAG_ISSUES[n], ns, nm] for n, ns, nm in issues if n in TAG_ISSUES],
           "tags_after": list(rule.to_dict().get("tags", [])),
           "tags_after_objs": [[t.namespace, t.name] for t in rule.tags]}
    flags = {"dict_same_after_validation": before_dict == repr(rule.to_dict()),
             "tag_objects_same_after_validation": before_objs == res["tags_after_objs"]}
    fresh = _tag_rule(case)
    try:
        q0 = repr(TextQueryTestBackend().convert_rule(fresh))
        q1 = repr(TextQueryTestBackend().convert_rule(rule))
    except Exception as e:  # noqa
        q0 = q1 = "EXC"
    flags["convert_same_after_validation"] = q0 == q1
    rng = random.Random(case.get("seed", 0))
    o1 = TAG_ALL[:]
    rng.shuffle(o1)
    r1, r2 = _tag_rule(case), _tag_rule(case)
    m1 = sorted(map(json.dumps, _run_tag_validators(o1, r1)))
    m2 = sorted(map(json.dumps, _run_tag_validators(o1[::-1], r2)))
    flags["all_tag_validators_order_independent"] = m1 == m2
    flags["all_tag_validators_pure"] = repr(r1.to_dict()) == before_dict and repr(r2.to_dict()) == before_dict
    res["pure"] = flags
    return res
