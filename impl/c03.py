"""C03: run SigmaDetectionItem.from_mapping(key, value) on the working tree and encode what it stores."""
from sigma.rule.detection import SigmaDetectionItem
from sigma.conditions import ConditionAND, ConditionOR
from sigma.types import (SigmaString, SigmaCasedString, SigmaNumber, SigmaTimestampPart, SigmaBool, SigmaNull,
                         SigmaRegularExpression, SigmaRegularExpressionFlag, SigmaCIDRExpression,
                         SigmaCompareExpression, SigmaFieldReference, SigmaExists, SigmaExpansion,
                         SpecialChars, Placeholder, TimestampPart, CompareOperators)


def enc_parts(s):
    if type(s) not in (SigmaString, SigmaCasedString) or not isinstance(s.s, list):
        return None
    out = []
    for p in s.s:
        if isinstance(p, str): out.append(["s", p])
        elif p is SpecialChars.WILDCARD_MULTI: out.append(["m"])
        elif p is SpecialChars.WILDCARD_SINGLE: out.append(["q"])
        elif type(p) is Placeholder and isinstance(p.name, str): out.append(["p", p.name])
        else: return None
    return out


def enc_num(n):
    if type(n) is int: return ["i", str(n)]
    if type(n) is float:
        a, b = n.as_integer_ratio()
        return ["f", str(a), str(b)]
    return None


def enc_numv(v):
    if type(v) is SigmaTimestampPart:
        if type(v.number) is not int or not isinstance(v.timestamp_part, TimestampPart): return None
        return ["ts", v.timestamp_part.name, str(v.number)]
    if type(v) is SigmaNumber:
        n = enc_num(v.number)
        return None if n is None else ["n", n]
    return None


def enc(v):
    t = type(v)
    if t is SigmaExpansion:
        if not isinstance(v.values, list): return ["?", repr(v)[:80]]
        return ["x", [enc(x) for x in v.values]]
    if t in (SigmaString, SigmaCasedString):
        p = enc_parts(v)
        if p is not None: return ["str", t is SigmaCasedString, p]
    elif t in (SigmaNumber, SigmaTimestampPart):
        n = enc_numv(v)
        if n is not None: return ["num", n]
    elif t is SigmaBool and type(v.boolean) is bool:
        return ["bool", v.boolean]
    elif t is SigmaNull:
        return ["null"]
    elif t is SigmaRegularExpression:
        p = enc_parts(v.regexp)
        if p is not None and all(isinstance(f, SigmaRegularExpressionFlag) for f in v.flags):
            return ["re", p, SigmaRegularExpressionFlag.IGNORECASE in v.flags,
                    SigmaRegularExpressionFlag.MULTILINE in v.flags, SigmaRegularExpressionFlag.DOTALL in v.flags]
    elif t is SigmaCIDRExpression and isinstance(v.cidr, str):
        return ["cidr", v.cidr]
    elif t is SigmaCompareExpression and isinstance(v.op, CompareOperators):
        n = enc_numv(v.number)
        if n is not None: return ["cmp", v.op.name, n]
    elif t is SigmaFieldReference and isinstance(v.field, str):
        return ["fr", v.field, bool(v.starts_with), bool(v.ends_with)]
    elif t is SigmaExists and type(v.exists) is bool:
        return ["ex", v.exists]
    return ["?", repr(v)[:80]]


def dec_val(x, top=False):
    k, = x.keys()
    a = x[k]
    if k == "s": return a
    if k == "i": return int(a)
    if k == "f": return float(a)
    if k == "b": return bool(a)
    if k == "n": return None
    if k == "o": return {"a": 1} if a == "dict" else ((1,) if top else [1])   # a top-level list would be a value list
    raise ValueError(k)


def run_item(case):
    v = case["val"]
    val = [dec_val(x) for x in v["list"]] if "list" in v else dec_val(v, True)
    d = SigmaDetectionItem.from_mapping(case["key"], val)
    if d.value_linking is ConditionAND: link = True
    elif d.value_linking is ConditionOR: link = False
    else: link = None
    return {"values": [enc(x) for x in d.value], "and": link, "neg": d.negated}
