"""Implementation side of C08: build a rule collection (+ optional pipeline) from a case, convert it with the
shipped TextQueryTestBackend, report the result list / raised exception, backend.errors (as positions in
collection order) and, as the oracle's data, a *fresh* conversion (new backend, new pipeline, newly parsed
rule) of every rule on its own.

case = {"rules": [rule...], "pipe": False|True|"state", "fmt": "default"|"test"|"state", "collect": bool, "fcs": bool}
 detection rules may carry "prod" (logsource product), "gate" (logsource service: strict | gstate | gapplied) and
 "sf" (field name src | dst) for the pipeline "state", whose items decide on per-rule pipeline state
 detection rule   {"k": "d", "conds": [c...], "form": "list"|"and"|"or"|"1of", "stage": "ok"|"pipe"|"fin"|"crash", "fld": 0..3}
      c in "ok" | "gok" (two comparisons) | "ph" (unresolved placeholder) | "gph" (group: fine comparison, then placeholder)
           | "same" / "sel" (selection 0 again / a selector meaning selection 0) | "ma" / "mb" (fields mapped to one)
           | "e1" / "e2" (values made equal by the query post-processing) | "type" (keyword boolean) | "cond" (condition names a missing detection); prefix "n" = used below a NOT
 "noteq": the backend class has convert_not_as_not_eq = True (negation rendered with != / not_* expressions)
 correlation rule {"k": "c", "refs": [positions], "gen": bool, "stage": "ok"|"pipe"|"fin"|"crash"}
Rule number i is named r<i>; a rule with "as": j is the same document as rule j repeated (same name, title, content).
"""
from impl.excname import exc_name
from dataclasses import dataclass, field
import yaml
from sigma.collection import SigmaCollection
from sigma.backends.test import TextQueryTestBackend
from sigma.exceptions import SigmaError, SigmaTransformationError
from sigma.processing.pipeline import ProcessingItem, ProcessingPipeline, QueryPostprocessingItem
from sigma.processing.transformations import (FieldMappingTransformation, RuleFailureTransformation,
                                              SetStateTransformation, StrictFieldMappingFailure)
from sigma.processing.transformations.base import PreprocessingTransformation
from sigma.processing.postprocessing import (EmbedQueryTransformation, QueryPostprocessingTransformation,
                                             ReplaceQueryTransformation)
from sigma.processing.conditions import (RuleAttributeCondition, LogsourceCondition, RuleProcessingStateCondition,
                                         RuleProcessingItemAppliedCondition)

FIELDS = ["fieldA", "f", "fieldC", "g h"]


class FcsBackend(TextQueryTestBackend):
    finalize_correlation_subqueries = True


@dataclass
class CrashTransformation(PreprocessingTransformation):
    """a transformation with a plain bug: raises a non-Sigma exception"""
    def apply(self, rule):
        raise ValueError("boom")


@dataclass
class FailFinalisation(QueryPostprocessingTransformation):
    """query post-processing that rejects the query (failure between conversion and finalisation)"""
    def apply(self, rule, query):
        super().apply(rule, query)
        raise SigmaTransformationError("query rejected by post-processing")


def rule_doc(i, r, names, force_nogen=False):
    name = names[i]
    i = r.get("as", i)        # a repeated document: the same text as rule number r["as"] (an equal, distinct object)
    if r["k"] == "c":
        return {"title": "C%d" % i, "name": name,
                "correlation": {"type": "event_count", "rules": [names[j] for j in r["refs"]],
                                "generate": bool(r["gen"]) and not force_nogen, "group-by": ["u"], "timespan": "5m",
                                "condition": {"gte": 2}}}
    det = {}
    conds = []
    fld = r.get("sf") or FIELDS[r.get("fld", 0)]
    for k, c in enumerate(r["conds"]):
        sel = "s%d" % k
        neg = c.startswith("n")       # the selection is used below a NOT
        c = c[1:] if neg else c
        if c == "ok":
            # plain string (eq expression) / prefix match (startswith expression) / number
            det[sel] = {fld: "v%d" % i} if k % 3 == 0 else {fld: "v%d%d*" % (i, k)} if k % 3 == 1 else {fld: i * 10 + k}
        elif c == "same":             # the same selection as condition 0 once more: equal queries
            sel = "s0"
        elif c == "sel":              # a selector that means exactly selection 0: equal queries
            sel = "1 of s0*"
        elif c in ("ma", "mb"):       # different fields; the user pipeline maps both to ip: equal queries after mapping
            det[sel] = {"sa" if c == "ma" else "sb": "m%d" % i}
        elif c in ("e1", "e2"):       # different values; the query post-processing of the pipeline drops the digit after '#':
            det[sel] = {fld: "e%d#%s" % (i, c[1])}     # equal after finalisation only
        elif c == "gok":              # a group of two comparisons
            det[sel] = {fld: "w%d%d" % (i, k), "y": "*z%d" % k}
        elif c == "ph":
            det[sel] = {fld + "|expand": "%x%"}
        elif c == "gph":              # a group: one comparison renders, the next one fails
            det[sel] = {"y": "z%d*" % k, fld + "|expand": "%x%"}
        elif c == "type":
            det[sel] = [True]
        elif c == "cond":
            det[sel] = {fld: 1}
            sel = "missing%d" % k
        conds.append("not (%s)" % sel if neg and " " in sel else "not " + sel if neg else sel)
    form = r.get("form", "list")
    if form == "list" or len(conds) == 1:
        cond = conds if len(conds) > 1 else conds[0]
    elif form == "and":
        cond = " and ".join(conds)
    elif form == "or":
        cond = " or not ".join(conds)
    else:
        cond = "1 of s*" if all(c.startswith("s") for c in conds) else " or ".join(conds)
    if any(c.startswith("not ") for c in conds) and form != "list" and len(conds) > 1:
        cond = " and ".join(conds)
    det["condition"] = cond
    ls = {"category": "test"}
    if r.get("prod"):
        ls["product"] = r["prod"]
    if r.get("gate"):
        ls["service"] = r["gate"]
    return {"title": "R%d" % i, "name": name, "logsource": ls, "detection": det}


def make_pipeline(case, names):
    if not case.get("pipe"):
        return None
    if case["pipe"] == "state":
        # every failure / success decision below reads per-rule pipeline state (field mapping tracking, state
        # dictionary, applied-item tracking) that ProcessingPipeline.apply resets for each rule
        alpha = lambda: [LogsourceCondition(product="alpha")]
        items = [ProcessingItem(FieldMappingTransformation({"src": "dst", "sa": "ip", "sb": "ip"}), rule_conditions=alpha(), identifier="map_alpha"),
                 ProcessingItem(SetStateTransformation("index", "A"), rule_conditions=alpha(), identifier="set_alpha"),
                 ProcessingItem(StrictFieldMappingFailure(), rule_conditions=[LogsourceCondition(service="strict")],
                                identifier="strict"),
                 ProcessingItem(RuleFailureTransformation("state gate"), identifier="gate_state",
                                rule_conditions=[LogsourceCondition(service="gstate"),
                                                 RuleProcessingStateCondition("index", "A")]),
                 ProcessingItem(RuleFailureTransformation("applied gate"), identifier="gate_applied",
                                rule_conditions=[LogsourceCondition(service="gapplied"),
                                                 RuleProcessingItemAppliedCondition("map_alpha")])]
    else:
        items = [ProcessingItem(FieldMappingTransformation({"f": ["f1", "f2"], "sa": "ip", "sb": "ip"})),
                 ProcessingItem(SetStateTransformation("index", "win"))]
    post = [QueryPostprocessingItem(ReplaceQueryTransformation("#[0-9]", "#")),
            QueryPostprocessingItem(EmbedQueryTransformation(prefix="<", suffix=">"))]
    for i, r in enumerate(case["rules"]):
        cond = [RuleAttributeCondition("name", names[i])]
        if r.get("stage") == "pipe":
            items.append(ProcessingItem(RuleFailureTransformation("unsupported"), rule_conditions=cond))
        elif r.get("stage") == "crash":
            items.append(ProcessingItem(CrashTransformation(), rule_conditions=cond))
        elif r.get("stage") == "fin":
            post.append(QueryPostprocessingItem(FailFinalisation(), rule_conditions=cond))
    return ProcessingPipeline(items=items, postprocessing_items=post)


_nclass = [0]


def make_backend(case, names, collect):
    """a new backend *class* for every backend object: class-level attributes (the expression templates that
    the not-equals rendering swaps on the class) never travel between the collection run and the reference runs"""
    _nclass[0] += 1
    attrs = {}
    if case.get("fcs"):
        attrs["finalize_correlation_subqueries"] = True
    if case.get("noteq"):
        attrs.update(convert_not_as_not_eq=True, not_eq_token="!=",
                     not_startswith_expression="{field} not_startswith {value}",
                     not_endswith_expression="{field} not_endswith {value}",
                     not_contains_expression="{field} not_contains {value}",
                     not_re_expression="{field}!=/{regex}/",
                     not_cidr_expression="not_cidrmatch('{field}', \"{value}\")")
    cls = type("VerifBackend%d" % _nclass[0], (TextQueryTestBackend,), attrs)
    return cls(make_pipeline(case, names), collect_errors=collect)


def collection(case, names, idxs, force_nogen=False):
    docs = [rule_doc(i, case["rules"][i], names, force_nogen) for i in idxs]
    return SigmaCollection.from_yaml(yaml.safe_dump_all(docs))


def err(e):
    return {"exc": exc_name(e), "sigma": isinstance(e, SigmaError)}


def closure(case, i):
    seen = set()
    def go(j):
        if j in seen:
            return
        seen.add(j)
        r = case["rules"][j]
        if r["k"] == "c":
            for x in r["refs"]:
                go(x)
    go(i)
    return sorted(seen)


def flags(case, i):
    """(output switch, has back references) of rule i, read off the source"""
    refs = [r for r in case["rules"] if r["k"] == "c" and i in r["refs"]]
    return (all(r["gen"] for r in refs), bool(refs))


def alone(case, names, i):
    """fresh objects for everything (backend, pipeline, parsed rules); the rule on its own, in the same role it
    has in the collection: a correlation rule comes with the rules it refers to (nothing of them emitted); a
    rule whose output is switched off (it is only a building block of correlation rules: no query of its own,
    fails only if the raw query cannot be produced) comes with one stub correlation rule referring to it
    (generate: false), whose own output is dropped"""
    r = case["rules"][i]
    out, br = flags(case, i)
    if out:
        br = False      # an emitted rule is judged by the plain conversion on its own, whoever refers to it
    raw = []
    def cb(rule, fmt, index, cond, result):
        if rule.name == names[i]:
            raw.append(result)
        return result
    if r["k"] == "d" and not br:
        be = make_backend(case, names, False)
        col = collection(case, names, [i])
        try:
            q = be.convert(col, case["fmt"], callback=cb)
            return {"q": q, "raw": raw}
        except Exception as e:  # noqa
            return dict(err(e), raw=raw)
    be = make_backend(case, names, True)
    idxs = closure(case, i)
    docs = [rule_doc(j, case["rules"][j], names, True) for j in idxs]
    if br:
        docs.append({"title": "stub", "name": "stub",
                     "correlation": {"type": "event_count", "rules": [names[i]], "generate": out, "group-by": ["u"],
                                     "timespan": "5m", "condition": {"gte": 2}}})
    col = SigmaCollection.from_yaml(yaml.safe_dump_all(docs))
    try:
        q = be.convert(col, case["fmt"], callback=cb)
    except Exception as e:  # noqa
        return dict(err(e), raw=raw)
    mine = [e for (ru, e) in be.errors if ru.name == names[i]]
    if mine:
        return dict(err(mine[0]), raw=raw, nerr=len(mine))
    if br and not any(ru.name == "stub" for (ru, e) in be.errors):
        q = q[:-1]
    return {"q": q, "raw": raw}


def run_collection(case):
    names = ["r%d" % r.get("as", i) for i, r in enumerate(case["rules"])]
    be = make_backend(case, names, case["collect"])
    col = collection(case, names, range(len(names)))
    out = {}
    try:
        res = be.convert(col, case["fmt"])
        out["res"] = res if isinstance(res, list) and all(isinstance(x, str) for x in res) else {"weird": repr(res)[:200]}
    except Exception as e:  # noqa
        out["res"] = err(e)
    order = [r.name for r in col.rules]
    pos = {id(r): k for k, r in enumerate(col.rules)}
    out["order"] = [int(n[1:]) for n in order]
    # records and references are identified by object identity (position in the collection), never by equality
    out["errors"] = [[pos.get(id(r), -1), exc_name(e)] for r, e in be.errors]
    out["refpos"] = [[pos.get(id(ref.rule), -1) for ref in r.referenced_rules] for r in col.rules
                     if hasattr(r, "referenced_rules")]
    out["alone"] = [alone(case, names, i) for i in range(len(names))]
    return out
