"""C18 implementation side: SigmaCIDRExpression validation / expand, and the conversion of a
`field|cidr` item by a backend with and without a native CIDR expression."""
from impl.excname import exc_name
import ipaddress
from typing import ClassVar
from sigma.types import SigmaCIDRExpression
from sigma.conversion.base import TextQueryBackend
from sigma.rule import SigmaRule


def _net(c):
    n = c.network
    sc = getattr(n.network_address, "_scope_id", None)
    return {"v": n.version, "addr": str(int(n.network_address)), "len": n.prefixlen, "scope": sc}


def run_expand(case):
    c = SigmaCIDRExpression(case["s"])
    r = _net(c)
    r["pats"] = c.expand()
    r["texts"] = [str(ipaddress.IPv6Address(int(x))) for x in case.get("samples", [])]
    return r


class _Base(TextQueryBackend):
    name: ClassVar[str] = "C18 minimal text backend"
    formats: ClassVar[dict] = {"default": "plain"}
    group_expression: ClassVar[str] = "({expr})"
    or_token: ClassVar[str] = "or"
    and_token: ClassVar[str] = "and"
    not_token: ClassVar[str] = "not"
    eq_token: ClassVar[str] = "="
    str_quote: ClassVar[str] = '"'
    escape_char: ClassVar[str] = "\\"
    wildcard_multi: ClassVar[str] = "*"
    wildcard_single: ClassVar[str] = "?"
    add_escaped: ClassVar[str] = "\\"
    convert_or_as_in: ClassVar[bool] = False
    convert_and_as_in: ClassVar[bool] = False
    field_in_list_expression: ClassVar[str] = "{field} {op} ({list})"
    or_in_operator: ClassVar[str] = "in"
    and_in_operator: ClassVar[str] = "contains-all"
    list_separator: ClassVar[str] = ", "


class NativeBackend(_Base):
    cidr_expression: ClassVar[str] = "{value}\x01{network}\x01{prefixlen}\x01{netmask}"


class ExpandingBackend(_Base):
    cidr_expression: ClassVar[None] = None


def _rule(s):
    return SigmaRule.from_dict({
        "title": "t", "logsource": {"category": "c"},
        "detection": {"sel": {"f|cidr": s}, "condition": "sel"},
    })


def _conv(backend, s):
    from sigma.exceptions import SigmaError
    try:
        q = backend.convert_rule(_rule(s))
        return {"q": q[0] if len(q) == 1 else q}
    except Exception as e:  # noqa
        return {"exc": exc_name(e), "sigma": isinstance(e, SigmaError)}


def run_native(case):
    s = case["s"]
    n = _conv(NativeBackend(), s)
    if "q" in n and isinstance(n["q"], str):
        n = {"fields": n["q"].split("\x01")}
    return {"native": n, "expanded": _conv(ExpandingBackend(), s)}


def run_print6(case):
    return {"t": str(ipaddress.IPv6Address(int(case["a"])))}


def _list_backend(or_as_in, allow_wild):
    class B(_Base):
        cidr_expression: ClassVar[None] = None
        convert_or_as_in: ClassVar[bool] = or_as_in
        in_expressions_allow_wildcards: ClassVar[bool] = allow_wild
    return B()


def run_render(case):
    """the expansion rendered by a backend without native CIDR support, for the four combinations of
    convert_or_as_in x in_expressions_allow_wildcards"""
    out = []
    for o in (False, True):
        for a in (False, True):
            r = _conv(_list_backend(o, a), case["s"])
            r["o"], r["a"] = o, a
            out.append(r)
    return {"rs": out, "texts": [str(ipaddress.IPv6Address(int(x))) for x in case.get("samples", [])]}
