"""C16 implementation side: loads a pipeline document through the public entry points of pySigma and converts
one rule with it, inside a scratch directory tree with symlinks, while a Python audit hook records (and, for
the network, refuses) every process / file / socket / exec event.  Result: outcome classes, the tree of
capability flags found on the instantiated objects, and the ordered effect trace."""
from impl.excname import exc_name
import atexit, builtins, copy, json, os, shutil, sys, tempfile

import yaml
from sigma.exceptions import SigmaError

# ---------------------------------------------------------------------------------------------
# scratch tree (one per process), physical locations known by construction
# ---------------------------------------------------------------------------------------------
_ROOT = None
_STATE = {"active": False, "log": None}

# vars files: relative physical location -> id
VARS_FILES = {"allowed/v_in.py": "in", "allowed/sub/v_sub.py": "sub", "allowed_evil/v_pfx.py": "pfx",
              "outside/v_out.py": "out", "pipe/v_pipe.py": "pipe", "pipe/sub/deep/v_deep.py": "deep",
              "pipe/sub/deep/below/v_below.py": "below"}
SYMLINKS = {"allowed/link_out.py": "../outside/v_out.py", "allowed/linkdir": "../outside",
            "outside/link_in.py": "../allowed/v_in.py", "alias": "allowed",
            "pipe/sub/deep/link_up.py": "../../v_pipe.py", "pipe/link_out.py": "../outside/v_out.py",
            "pipealias": "pipe"}
# sibling pipeline files for directory specs (both sort after the document under test: priority 99)
SIBLINGS = {"pipe/a_sibling.yml": {"name": "sib", "priority": 99},
            "pipe/sub/z_sibling.yml": {"priority": 99, "transformations": [{"type": "set_state", "key": "k", "val": "v"}]}}
# value files for the file source
# Jinja2 template files for `path` templates
TPL_FILES = {"tpl/q.j2": "P{{ query }}", "tpl/f.j2": "{{ queries|join(';') }}", "tpl/hostile_q.j2": "{{ query.__class__ }}",
             "tpl/hostile_f.j2": "{{ cycler.__init__.__globals__.os.popen('echo C16PWN').read() }}"}
SRC_FILES = {"src/values_a.txt": "EXTVAL_fa\n", "src/values_b.txt": "EXTVAL_fb1\nEXTVAL_fb2\n",
             "src/values.csv": "col,other\nEXTVAL_fc,x\n"}


def root():
    global _ROOT
    if _ROOT is None:
        r = os.path.realpath(tempfile.mkdtemp(prefix="verif_c16_"))
        for d in ("allowed/sub", "allowed_evil", "outside", "pipe/sub/deep/below", "src", "tpl"):
            os.makedirs(os.path.join(r, d))
        for rel, vid in VARS_FILES.items():
            with open(os.path.join(r, rel), "w") as f:
                f.write("import builtins\n"
                        f"builtins._verif_c16_event(('exec', {vid!r}))\n"
                        f"vars = {{'mark': (lambda: 'VARSMARK_{vid}')}}\n")
        for rel, target in SYMLINKS.items():
            os.symlink(target, os.path.join(r, rel))
        for rel, content in list(SRC_FILES.items()) + list(TPL_FILES.items()):
            with open(os.path.join(r, rel), "w") as f:
                f.write(content)
        _ROOT = r
        atexit.register(shutil.rmtree, r, True)
        sys.addaudithook(_hook)
        builtins._verif_c16_event = _event
    return _ROOT


def _event(e):
    if _STATE["active"] and _STATE["log"] is not None:
        _STATE["log"].append(e)


def _hook(event, args):
    if not _STATE["active"]:
        return
    r = _ROOT
    try:
        if event == "open":
            p = args[0]
            if isinstance(p, bytes):
                p = p.decode("utf-8", "replace")
            if isinstance(p, str) and (p.startswith(r + "/") or p.startswith("/nonexistent_verif")):
                if p.endswith(".yml"):       # the pipeline files themselves
                    return
                _event(("open", p))
        elif event == "subprocess.Popen":
            _event(("run", args[1] if isinstance(args[1], str) else list(map(str, args[1]))))
        elif event in ("os.system", "os.exec", "os.posix_spawn", "os.spawn", "os.startfile", "pty.spawn"):
            _event(("run", [event] + [str(a)[:200] for a in args[:2]]))
        elif event == "exec":
            fn = getattr(args[0], "co_filename", "")
            if isinstance(fn, str) and fn.startswith(r + "/"):
                _event(("execaudit", fn))
        elif event in ("socket.getaddrinfo", "socket.connect", "socket.gethostbyname", "socket.sendto"):
            if event == "socket.getaddrinfo":
                host, port = args[0], args[1]
            elif event == "socket.gethostbyname":
                host, port = args[0], None
            else:
                addr = args[1]
                host, port = (addr[0], addr[1]) if isinstance(addr, tuple) and len(addr) >= 2 else (str(addr), None)
            _event(("net", str(host), port if isinstance(port, int) else str(port)))
    except Exception:   # the hook itself must never disturb the implementation
        return
    if event.startswith("socket.") and event in ("socket.getaddrinfo", "socket.connect", "socket.gethostbyname", "socket.sendto"):
        raise ConnectionRefusedError("verif C16: network access is refused inside the check")


def subst(x, r):
    """'$ROOT' stands for the scratch root without its leading slash: '/$ROOT/allowed' is a path string"""
    if isinstance(x, str):
        return x.replace("$ROOT", r[1:])
    if isinstance(x, list):
        return [subst(i, r) for i in x]
    if isinstance(x, dict):
        return {subst(k, r): subst(v, r) for k, v in x.items()}
    return x


def unsubst(x, r):
    if isinstance(x, str):
        return x.replace(r[1:], "$ROOT")
    if isinstance(x, (list, tuple)):
        return [unsubst(i, r) for i in x]
    return x


# ---------------------------------------------------------------------------------------------
def _flag(v):
    return bool(v)


def _paths(v, r):
    if v is None:
        return None
    if isinstance(v, (list, tuple)) and all(isinstance(i, str) for i in v):
        return [unsubst(i, r) for i in v]
    return ["<weird>", unsubst(repr(v), r)]


def sandbox_state(t):
    """is the Jinja2 template of this object evaluated in a sandbox?  Looked at twice, without running anything of the
    document: the class of the template's environment, and a probe expression (attribute with leading underscores on
    an int) rendered in that same environment, which only a sandbox refuses."""
    from jinja2.sandbox import SandboxedEnvironment
    from jinja2.exceptions import SecurityError
    tpl = getattr(t, "j2template", None)
    env = getattr(tpl, "environment", None)
    if env is None:
        return False
    refused = False
    try:
        env.from_string("{{ x.__class__.__name__ }}").render(x=1)
    except SecurityError:
        refused = True
    except Exception:
        refused = False
    return isinstance(env, SandboxedEnvironment) and refused


def walk(p, r, unsb=None):
    from sigma.processing.templates import TemplateBase
    from sigma.processing.transformations.external import (
        ExternalSourceBaseTransformation, FilePlaceholderTransformation, HTTPPlaceholderTransformation,
        CommandPlaceholderTransformation)

    def node(t):
        if isinstance(t, ExternalSourceBaseTransformation):
            if isinstance(t, FilePlaceholderTransformation):
                kind, src = "file", t.path
            elif isinstance(t, HTTPPlaceholderTransformation):
                kind, src = "http", t.url
            elif isinstance(t, CommandPlaceholderTransformation):
                kind, src = "cmd", t.cmd
            else:
                kind, src = "other", ""
            return ["ext", kind, unsubst(src if isinstance(src, str) else repr(src), r), _flag(t.allow_external_sources)]
        if isinstance(t, TemplateBase):
            if unsb is not None and not sandbox_state(t):
                unsb.append(type(t).__name__)
            return ["tpl", unsubst(t.vars, r) if isinstance(t.vars, str) or t.vars is None else repr(t.vars),
                    _flag(t.allow_template_vars), _paths(t.vars_allowed_paths, r)]
        np = getattr(t, "_nested_pipeline", None)
        if np is not None:
            w = walk(np, r, unsb)
            return ["nest", w["items"] + w["post"] + w["fin"]]
        return ["plain"]

    return {"items": [node(i.transformation) for i in p.items],
            "post": [node(i.transformation) for i in p.postprocessing_items],
            "fin": [node(f) for f in p.finalizers]}


def _exc(e):
    from sigma.exceptions import SigmaSecurityError
    return {"exc": exc_name(e), "sigma": isinstance(e, SigmaError), "security": isinstance(e, SigmaSecurityError),
            "msg": str(e)[:160]}


RULE = """
title: t
status: test
logsource:
    category: test
detection:
    sel:
%s
    condition: sel
"""


def check_layout(r, table):
    """the by-construction table of physical locations must agree with the file system (sanity of the harness)"""
    for path, comps in table:
        real = os.path.realpath(subst(path, r))
        exp = subst("/" + "/".join(comps), r)
        if real != exp:
            raise RuntimeError(f"C16 harness layout mismatch: realpath({path})={real} expected {exp}")


_LAYOUT_OK = set()


def run_case(case):
    from sigma.processing.pipeline import ProcessingPipeline
    from sigma.processing.resolver import ProcessingPipelineResolver
    from sigma.collection import SigmaCollection
    from sigma.backends.test import TextQueryTestBackend

    r = root()
    if "real" in case:       # the by-construction table of physical locations, validated against this file system
        check_layout(r, case["real"])
    doc = subst(copy.deepcopy(case["doc"]), r)
    a = case["args"]
    paths = None if a["paths"] is None else tuple(subst(a["paths"], r))
    entry = case["entry"]
    # where the pipeline file physically lies, and the string by which it is handed to the loader
    file_rel = "pipe/sub/deep/pipeline.yml" if case.get("loc") == "deep" else "pipe/pipeline.yml"
    src_path = os.path.join(r, file_rel)
    src_arg = subst(case.get("src") or "/$ROOT/" + file_rel, r)
    written = []
    saved = {k: os.environ.get(k) for k in ("PYSIGMA_ALLOW_EXTERNAL_SOURCES", "PYSIGMA_ALLOW_VARS_EXECUTION")}
    for k, v in (("PYSIGMA_ALLOW_EXTERNAL_SOURCES", case["env"]["ext"]), ("PYSIGMA_ALLOW_VARS_EXECUTION", case["env"]["tv"])):
        if v is None:
            os.environ.pop(k, None)
        else:
            os.environ[k] = v
    log = []
    _STATE["log"] = log
    res = {}
    try:
        if entry in ("yaml_src", "resolver", "resolve_file", "resolve_dir"):
            with open(src_path, "w") as f:
                yaml.safe_dump(doc, f)
            written.append(src_path)
            if case.get("siblings"):
                for rel, content in SIBLINGS.items():
                    with open(os.path.join(r, rel), "w") as f:
                        yaml.safe_dump(content, f)
                    written.append(os.path.join(r, rel))
        _STATE["active"] = True
        pipeline = None
        try:
            if entry == "dict":
                pipeline = ProcessingPipeline.from_dict(doc, allow_template_vars=a["tv"], vars_allowed_paths=paths,
                                                        allow_external_sources=a["ext"])
            elif entry == "yaml":
                pipeline = ProcessingPipeline.from_yaml(yaml.safe_dump(doc), allow_template_vars=a["tv"],
                                                        vars_allowed_paths=paths, allow_external_sources=a["ext"])
            elif entry == "yaml_src":
                pipeline = ProcessingPipeline.from_yaml(yaml.safe_dump(doc), allow_template_vars=a["tv"],
                                                        vars_allowed_paths=paths, source_path=src_arg,
                                                        allow_external_sources=a["ext"])
            elif entry == "resolver":
                pipeline = ProcessingPipelineResolver().resolve_pipeline(src_arg)
            elif entry == "resolve_file":
                pipeline = ProcessingPipelineResolver().resolve([src_arg])
            elif entry == "resolve_dir":
                pipeline = ProcessingPipelineResolver().resolve([subst(case["spec"], r)])
            else:
                raise RuntimeError("unknown entry " + entry)
            res["load"] = {"ok": True}
        except BaseException as e:
            if isinstance(e, (KeyboardInterrupt, SystemExit, MemoryError)):
                raise
            res["load"] = _exc(e)
        nload = len(log)
        res["tree"] = None
        res["conv"] = None
        res["leak"] = False
        res["out"] = None
        res["unsandboxed"] = []
        if pipeline is not None:
            _STATE["active"] = False
            unsb = []
            res["tree"] = walk(pipeline, r, unsb)
            res["unsandboxed"] = unsb
            _STATE["active"] = True
            sel = "".join(f"        f{i}|expand: '%{ph}%'\n" for i, ph in enumerate(case["phs"])) or "        f: v\n"
            try:
                rules = SigmaCollection.from_yaml(RULE % sel)
                backend = TextQueryTestBackend(processing_pipeline=pipeline)
                out = backend.convert(rules)
                res["conv"] = {"ok": True}
                text = out if isinstance(out, str) else json.dumps(out, default=str)
                res["leak"] = "EXTVAL_" in text
                res["out"] = unsubst(text, r)[:300]
            except BaseException as e:
                if isinstance(e, (KeyboardInterrupt, SystemExit, MemoryError)):
                    raise
                res["conv"] = _exc(e)
        _STATE["active"] = False
        # canonical trace
        trace, side = [], []
        for i, e in enumerate(log):
            phase = "load" if i < nload else "conv"
            if e[0] == "exec":
                trace.append([phase, "exec", e[1]])
            elif e[0] == "open":
                p = unsubst(e[1], r)
                if p.startswith("/$ROOT/src/") or p.startswith("/nonexistent_verif"):
                    trace.append([phase, "read", p])
                else:
                    side.append([phase, "open", p])
            elif e[0] == "run":
                trace.append([phase, "run", unsubst(e[1], r)])
            elif e[0] == "net":
                trace.append([phase, "net", e[1], e[2]])
            elif e[0] == "execaudit":
                side.append([phase, "execaudit", unsubst(e[1], r)])
        res["trace"] = trace
        res["side"] = side
        return res
    finally:
        _STATE["active"] = False
        _STATE["log"] = None
        for k, v in saved.items():
            if v is None:
                os.environ.pop(k, None)
            else:
                os.environ[k] = v
        for w in written:
            try:
                os.unlink(w)
            except OSError:
                pass
