"""C07 implementation side: load a (possibly malformed) document with the real loaders in strict and
in collecting mode and report (outcome, error classes).  Runs under /venv/bin/python with
PYTHONPATH=<repo>:<verif>.

Documents travel as tagged JSON so that every YAML-representable value survives:
  ["n"] null  ["b",bool]  ["i","<int>"]  ["f","<float>|nan|inf|-inf"]  ["s",str]  ["d","YYYY-MM-DD"]
  ["l",[v...]]  ["m",[[k,v]...]]   (keys are scalars; insertion order kept)
"""
from impl.excname import exc_name
import copy
import datetime
import ipaddress
import re
import uuid

import yaml

from sigma.collection import SigmaCollection
from sigma.correlations import SigmaCorrelationRule
from sigma.exceptions import SigmaError
from sigma.filters import SigmaFilter
from sigma.rule import SigmaRule


def to_py(t):
    k = t[0]
    if k == "n": return None
    if k == "b": return bool(t[1])
    if k == "i": return int(t[1])
    if k == "f": return float(t[1])
    if k == "s": return t[1]
    if k == "d": return datetime.date.fromisoformat(t[1])
    if k == "l": return [to_py(x) for x in t[1]]
    if k == "m": return {to_py(a): to_py(b) for a, b in t[1]}
    raise ValueError(k)


def strings_of(t, out):
    k = t[0]
    if k == "s": out.add(t[1])
    elif k == "l":
        for x in t[1]: strings_of(x, out)
    elif k == "m":
        for a, b in t[1]:
            strings_of(a, out); strings_of(b, out)


# ---- library facts (CPython only, no sigma code involved) -------------------------------------
def _ok(f, s, exc):
    try:
        f(s)
        return True
    except exc:
        return False


def facts_of(s):
    bits = 0
    if _ok(uuid.UUID, s, ValueError): bits |= 1
    if _ok(int, s, ValueError): bits |= 2
    if not _ok(re.compile, s, re.error): bits |= 4
    if _ok(ipaddress.ip_network, s, ValueError): bits |= 8
    return bits


IDENT0 = "abcdefghijklmnopqrstuvwxyzABCDEFGHIJKLMNOPQRSTUVWXYZ_"
IDENT = IDENT0 + "0123456789"
KWCHARS = IDENT + "$"


def ext_parse(s):
    """PEG reading of the pyparsing grammar of SigmaExtendedCorrelationCondition.parse:
    Word(alphas+"_", alphanums+"_") operands, parentheses, Keyword not (prefix) > and > or, parse_all.
    Returns the identifiers in order of first appearance, or None for a ParseException."""
    n = len(s)
    refs = []

    def ws(i):
        while i < n and s[i] in " \t\n\r": i += 1
        return i

    def kw(i, w):
        i = ws(i)
        if not s.startswith(w, i): return None
        j = i + len(w)
        if j < n and s[j] in KWCHARS: return None
        if i > 0 and s[i - 1] in KWCHARS: return None
        return j

    def atom(i, acc):
        i = ws(i)
        if i < n and s[i] in IDENT0:
            j = i + 1
            while j < n and s[j] in IDENT: j += 1
            acc.append(s[i:j])
            return j
        if i < n and s[i] == "(":
            j = level(i + 1, 2, acc)
            if j is None: return None
            j = ws(j)
            if j < n and s[j] == ")": return j + 1
        return None

    def level(i, l, acc):
        if l == 0:                       # not (right associative prefix) | atom
            j = kw(i, "not")
            if j is not None:
                a = []
                k = level(j, 0, a)
                if k is not None:
                    acc.extend(a)
                    return k
            return atom(i, acc)
        w = "and" if l == 1 else "or"
        a = []
        j = level(i, l - 1, a)
        if j is None: return None
        while True:
            k = kw(j, w)
            if k is None: break
            b = []
            k = level(k, l - 1, b)
            if k is None: break
            a.extend(b)
            j = k
        acc.extend(a)
        return j

    acc = []
    j = level(0, 2, acc)
    if j is None or ws(j) != n: return None
    for r in acc:
        if r not in refs: refs.append(r)
    return refs


def corr_conditions(t, out):
    """strings at <map>.correlation.condition, anywhere"""
    if t[0] == "l":
        for x in t[1]: corr_conditions(x, out)
    elif t[0] == "m":
        for a, b in t[1]:
            if a == ["s", "correlation"] and b[0] == "m":
                for k, v in b[1]:
                    if k == ["s", "condition"] and v[0] == "s": out.add(v[1])
            corr_conditions(b, out)


def library_coll(doc_t):
    ss = set()
    strings_of(doc_t, ss)
    derived = set(ss)
    for s in ss:
        derived.add(s[:-1])
        for a in ("", ".*"):
            for b in ("", ".*"):
                derived.add(a + s + b)
    facts = [[s, b] for s, b in ((s, facts_of(s)) for s in sorted(derived)) if b]
    ukeys = [[s, str(uuid.UUID(s).int)] for s, b in facts if b & 1]
    cs = set()
    corr_conditions(doc_t, cs)
    exts = [[s, e] for s, e in ((s, ext_parse(s)) for s in sorted(cs)) if e is not None]
    return facts, ukeys, exts


def library(doc_t):
    ss = set()
    strings_of(doc_t, ss)
    derived = set(ss)
    for s in ss:
        derived.add(s[:-1])
        for a in ("", ".*"):
            for b in ("", ".*"):
                derived.add(a + s + b)
    facts = [[s, b] for s, b in ((s, facts_of(s)) for s in sorted(derived)) if b]   # strings not listed: no bit set
    exts = [[s, ext_parse(s)] for s in sorted(ss)]
    exts = [[s, e] for s, e in exts if e is not None]
    return facts, exts


# ---- the loaders -------------------------------------------------------------------------------
LOADERS = {
    "rule": lambda d, c: SigmaRule.from_dict(d, collect_errors=c),
    "corr": lambda d, c: SigmaCorrelationRule.from_dict(d, collect_errors=c),
    "filter": lambda d, c: SigmaFilter.from_dict(d, collect_errors=c),
    # the way load_ruleset reads one file: no filter application, no reference resolution
    "coll": lambda d, c: SigmaCollection.from_dicts(d, c, None, True, False),
    # default arguments: filters applied and references resolved at once
    "colldef": lambda d, c: SigmaCollection.from_dicts(d, c),
}


def attempt(kind, doc, collect):
    try:
        r = LOADERS[kind](copy.deepcopy(doc), collect)
    except SigmaError as e:
        return ["sigma", exc_name(e)], e
    except Exception as e:  # noqa
        return ["crash", exc_name(e), str(e)[:120]], e
    return ["ok", [exc_name(e) for e in r.errors]], r


def run_load(case):
    doc = to_py(case["doc"])
    strict, so = attempt(case["kind"], doc, False)
    collect, co = attempt(case["kind"], doc, True)
    first_eq = None
    if strict[0] == "sigma" and collect[0] == "ok" and co.errors:
        first_eq = bool(co.errors[0] == so)
    out = {"strict": strict, "collect": collect, "first_eq": first_eq}
    if case["kind"] in ("coll", "colldef"):
        out["facts"], out["ukeys"], out["exts"] = library_coll(case["doc"])
    elif case.get("lib", True):
        out["facts"], out["exts"] = library(case["doc"])
        if case["kind"] != "corr": out["exts"] = []
    return out


def run_yaml(case):
    """Text level: from_yaml of the single-document classes and of the collection."""
    def one(f, collect):
        try:
            r = f(case["text"], collect)
        except SigmaError as e:
            return ["sigma", exc_name(e)], e
        except yaml.YAMLError as e:
            return ["yaml", exc_name(e)], e
        except Exception as e:  # noqa
            return ["crash", exc_name(e), str(e)[:120]], e
        return ["ok", [exc_name(e) for e in r.errors]], r
    f = {"rule": SigmaRule.from_yaml, "corr": SigmaCorrelationRule.from_yaml, "filter": SigmaFilter.from_yaml,
         "coll": lambda t, c: SigmaCollection.from_yaml(t, c, None, True, False)}[case["kind"]]
    strict, so = one(f, False)
    collect, co = one(f, True)
    first_eq = None
    if strict[0] == "sigma" and collect[0] == "ok" and co.errors:
        first_eq = bool(co.errors[0] == so)
    return {"strict": strict, "collect": collect, "first_eq": first_eq}


# ---- collections through every public entry point ---------------------------------------------
def _load_collection(docs, via, collect, cf, rr, split, workdir=None):
    import os
    if via == "dicts":
        return SigmaCollection.from_dicts(copy.deepcopy(docs), collect, None, cf, rr)
    if via == "yaml":
        return SigmaCollection.from_yaml(yaml.safe_dump_all(docs, sort_keys=False, allow_unicode=True), collect, None, cf, rr)
    parts = [docs[:split], docs[split:]]
    if via == "merge":
        cols = [SigmaCollection.from_dicts(copy.deepcopy(p), collect, None, True, False) for p in parts]
        return SigmaCollection.merge(cols, resolve_references=rr)
    if via == "ruleset":      # the same files for both modes: error locations take part in error equality
        for i, p in enumerate(parts):
            with open(os.path.join(workdir, f"{i}.yml"), "w", encoding="utf-8") as f:
                f.write(yaml.safe_dump_all(p, sort_keys=False, allow_unicode=True))
        return SigmaCollection.load_ruleset([workdir], collect_errors=collect, resolve_references=rr)
    raise ValueError(via)


def run_collx(case):
    """collection = valid rules + one (possibly malformed) document, loaded through from_dicts / from_yaml /
    merge / load_ruleset, filters applied or only collected, references resolved or not"""
    docs = to_py(case["doc"])
    via, cf, rr, split = case["via"], case["cf"], case["rr"], case.get("split", 1)

    import tempfile
    tmp = tempfile.TemporaryDirectory(prefix="c07_") if via == "ruleset" else None

    def one(collect):
        try:
            r = _load_collection(docs, via, collect, cf, rr, split, tmp.name if tmp else None)
        except SigmaError as e:
            return ["sigma", exc_name(e)], e
        except yaml.YAMLError as e:
            return ["yaml", exc_name(e)], e
        except Exception as e:  # noqa
            return ["crash", exc_name(e), str(e)[:160]], e
        return ["ok", [exc_name(e) for e in r.errors]], r
    strict, so = one(False)
    collect, co = one(True)
    first_eq = None
    if strict[0] == "sigma" and collect[0] == "ok" and co.errors:
        first_eq = bool(co.errors[0] == so)
    if tmp: tmp.cleanup()
    out = {"strict": strict, "collect": collect, "first_eq": first_eq}
    if via == "dicts":
        out["facts"], out["ukeys"], out["exts"] = library_coll(case["doc"])
    return out
