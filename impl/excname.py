"""Name of an exception for the correspondence: for a Sigma error, the first class of its MRO that belongs to the vocabulary
of the models - the exception classes of sigma/exceptions.py at the verified commit (impl/known_exceptions.json). A new, more
specific subclass of a Sigma exception is therefore reported as the class the models know: the properties speak of Sigma
errors and their kind, not of class names. Every other exception keeps its own class name."""
import json, os

KNOWN = frozenset(json.load(open(os.path.join(os.path.dirname(os.path.abspath(__file__)), "known_exceptions.json"))))


def exc_name(e):
    cls = e if isinstance(e, type) else type(e)
    if cls.__name__ in KNOWN:
        return cls.__name__
    for c in cls.__mro__:
        if c.__name__ in KNOWN and c.__module__ == "sigma.exceptions":
            return c.__name__
    return cls.__name__
