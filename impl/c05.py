from sigma.types import SigmaString, SpecialChars, Placeholder
import re

def enc_parts(parts):
    out = []
    for p in parts:
        if isinstance(p, str): out.append(["s", p])
        elif p == SpecialChars.WILDCARD_MULTI: out.append(["m"])
        elif p == SpecialChars.WILDCARD_SINGLE: out.append(["q"])
        elif isinstance(p, Placeholder): out.append(["p", p.name])
        else: out.append(["?", repr(p)])
    return out

def run_plain(case):
    v = SigmaString(case["s"])
    plain = v.to_plain()
    return {"parts": enc_parts(v.s), "plain": plain, "re": enc_parts(SigmaString(plain).s)}

def run_cased(case):
    # the two ways a case-sensitive string comes into being: parsed directly, and converted from a parsed string (|cased)
    from sigma.types import SigmaCasedString
    v = SigmaString(case["s"])
    c = SigmaCasedString.from_sigma_string(v)
    return {"parts": enc_parts(v.s), "conv": enc_parts(c.s), "direct": enc_parts(SigmaCasedString(case["s"]).s),
            "cls": type(c).__name__, "after": enc_parts(v.s)}

def run_convert(case):
    k = case["k"]
    v = SigmaString(case["s"])
    return {"q": v.convert(k["esc"], k["multi"], k["single"], k["add"], k["filter"])}

def run_regex(case):
    v = SigmaString(case["s"])
    r = v.to_regex()
    rx = str(r.regexp)
    pat = re.compile(rx, re.DOTALL)
    return {"rx": rx, "m": [bool(pat.fullmatch(x)) for x in case["subjects"]]}

def run_slice(case):
    v = SigmaString(case["s"])
    r = v[slice(case["start"], case["stop"])]
    return {"parts": enc_parts(r.s)}

_bk = [0]
def run_quoted(case):
    from sigma.conversion.base import TextQueryBackend
    from sigma.conversion.state import ConversionState
    k = case["k"]
    _bk[0] += 1
    B = type(f"QB{_bk[0]}", (TextQueryBackend,), dict(
        name="q", formats={"default": "x"}, requires_pipeline=False,
        escape_char=k["esc"], wildcard_multi=k["multi"], wildcard_single=k["single"],
        str_quote=case["q"], add_escaped=k["add"], filter_chars=k["filter"], str_quote_pattern=None))
    return {"q": B().convert_value_str(SigmaString(case["s"]), ConversionState())}

def run_field(case):
    from sigma.conversion.base import TextQueryBackend
    k = case["k"]
    _bk[0] += 1
    B = type(f"FB{_bk[0]}", (TextQueryBackend,), dict(
        name="f", formats={"default": "x"}, requires_pipeline=False,
        field_quote=k["quote"], field_escape=k["escape"], field_escape_quote=k["escape_quote"],
        field_escape_pattern=re.compile(k["escape_pattern"]) if k["escape_pattern"] else None,
        field_quote_pattern=re.compile(k["quote_pattern"]) if k["quote_pattern"] else None,
        field_quote_pattern_negation=True))
    f = case["f"]
    pos = sorted({m.start() for m in re.finditer(k["escape_pattern"], f)}) if k["escape_pattern"] else []
    return {"text": B().escape_and_quote_field(f), "pos": pos}

def run_strop(case):
    from impl.c01 import run_strop as f
    return f(case)

def run_leaf(case):
    from impl.c01 import run_leaf as f
    return f(case)

def run_rxescape(case):
    from sigma.types import SigmaRegularExpression, SigmaRegularExpressionFlag
    fl = {"i": SigmaRegularExpressionFlag.IGNORECASE, "m": SigmaRegularExpressionFlag.MULTILINE, "s": SigmaRegularExpressionFlag.DOTALL}
    r = SigmaRegularExpression(case["s"], {fl[c] for c in case["flags"]})
    return {"q": r.escape(tuple(case["escaped"]), case["ec"], case["eec"], case["fp"])}
