from sigma.types import SigmaString, SpecialChars, Placeholder
import re

def enc_parts(parts):
    out = []
    for p in parts:
        if isinstance(p, str): out.append(["s", p])
        elif p == SpecialChars.WILDCARD_MULTI: out.append(["m"])
        elif p == SpecialChars.WILDCARD_SINGLE: out.append(["q"])
        elif isinstance(p, Placeholder): out.append(["p", p.name])
        else: out.append(["?", repr(p)])
    return out

def run_plain(case):
    v = SigmaString(case["s"])
    plain = v.to_plain()
    return {"parts": enc_parts(v.s), "plain": plain, "re": enc_parts(SigmaString(plain).s)}

def run_convert(case):
    k = case["k"]
    v = SigmaString(case["s"])
    return {"q": v.convert(k["esc"], k["multi"], k["single"], k["add"], k["filter"])}

def run_regex(case):
    v = SigmaString(case["s"])
    r = v.to_regex()
    rx = str(r.regexp)
    pat = re.compile(rx, re.DOTALL)
    return {"rx": rx, "m": [bool(pat.fullmatch(x)) for x in case["subjects"]]}

def run_slice(case):
    v = SigmaString(case["s"])
    r = v[slice(case["start"], case["stop"])]
    return {"parts": enc_parts(r.s)}
