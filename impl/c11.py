"""C11 implementation side: load a (rule set, filter set) with the real SigmaCollection, once without
applying the filters (source meaning) and once with, under a recorded / forced random.choices."""
from impl.excname import exc_name
import copy
import random

from sigma.collection import SigmaCollection
from sigma.conditions import (ConditionAND, ConditionOR, ConditionNOT, ConditionFieldEqualsValueExpression,
                              SigmaCondition)
from sigma.correlations import SigmaCorrelationRule
from sigma.exceptions import SigmaError
from sigma.rule import SigmaRule

_real_choices = random.choices


def enc_tree(t):
    if t is None:
        return None
    if isinstance(t, ConditionFieldEqualsValueExpression):
        return ["leaf", int(t.field[1:])]
    if isinstance(t, ConditionNOT):
        return ["not", enc_tree(t.args[0]) if t.args else None]
    if isinstance(t, ConditionAND):
        d = whole_detection(t)
        if d is not None:
            return ["leaf", d]
        return ["and", [enc_tree(a) for a in t.args]]
    if isinstance(t, ConditionOR):
        return ["or", [enc_tree(a) for a in t.args]]
    return ["other", type(t).__name__]


def whole_detection(t):
    """A detection normally is the single item d<k>: <k>. Collection action 'repeat' (and a global template)
    deep-merges a detection of the same name into ONE detection with several items, e.g. {d1: 1, d2: 2}; its
    postprocessed form is the AND of exactly its items, hanging below the ConditionIdentifier that named it
    (a selector's AND/OR hangs below the selector's parent instead). Such a node is ONE detection object,
    named like det_id() names it (by its first item) - as the source documents after the collection actions
    name it. Returns that id or None."""
    from sigma.conditions import ConditionIdentifier
    if not isinstance(t.parent, ConditionIdentifier) or len(t.args) < 2:
        return None
    if not all(isinstance(a, ConditionFieldEqualsValueExpression) for a in t.args):
        return None
    return int(t.args[0].field[1:])


def cond_tree(cond):
    try:
        return {"tree": enc_tree(cond.parsed)}
    except SigmaError as e:
        return {"err": exc_name(e), "sigma": True}
    except Exception as e:  # noqa
        return {"err": exc_name(e), "sigma": False}


def det_id(detection):
    """object id of a generated detection: its single item is  d<k>: <k>"""
    try:
        return int(detection.detection_items[0].field[1:])
    except Exception:  # noqa
        return -1


def rule_view(rule):
    if isinstance(rule, SigmaCorrelationRule):
        return {"title": rule.title, "kind": "corr", "dict": rule.to_dict()}
    return {
        "title": rule.title, "kind": "det",
        "dets": [[n, det_id(d)] for n, d in rule.detection.detections.items()],
        "conds": list(rule.detection.condition),
        "trees": [cond_tree(c) for c in rule.detection.parsed_condition],
        "dict": rule.to_dict(),
    }


def one_run(docs, run, by_title):
    draws = []
    forced = list(run.get("forced") or [])
    fallback = random.Random(12345)

    def choices(population, weights=None, *, cum_weights=None, k=1):
        if forced:
            r = list(forced.pop(0))
        elif run.get("forced") is not None:
            r = fallback.choices(population, k=k)
        else:
            r = _real_choices(population, weights, cum_weights=cum_weights, k=k)
        draws.append("".join(r))
        return r

    random.seed(run.get("seed", 0))
    random.choices = choices
    try:
        if run.get("explicit"):
            # the other public route: collect the filters, then SigmaCollection.apply_filters(...)
            col = SigmaCollection.from_dicts(copy.deepcopy(docs), collect_filters=True)
            col.apply_filters(col.filters)
        else:
            col = SigmaCollection.from_dicts(copy.deepcopy(docs), collect_filters=bool(run.get("collect")))
        out_rules = [rule_view(r) for r in col.rules]
    finally:
        random.choices = _real_choices
    for r in out_rules:
        r["same"] = (r["dict"] == by_title[r["title"]])
        del r["dict"]
    return {"draws": draws, "out": out_rules}


def materialize(docs):
    """rebuild the object sharing a JSON case cannot express: {"$same_as": i} is the same dict object as
    document i, a condition {"$cond_of": i} the same list object as document i's condition"""
    out = []
    for d in docs:
        if "$same_as" in d:
            out.append(out[d["$same_as"]])
            continue
        d = copy.deepcopy(d)
        det = d.get("detection")
        if isinstance(det, dict) and isinstance(det.get("condition"), dict) and "$cond_of" in det["condition"]:
            det["condition"] = out[det["condition"]["$cond_of"]]["detection"]["condition"]
        out.append(d)
    return out


def run(case):
    docs = materialize(case["docs"])      # copy.deepcopy below keeps the sharing inside one load
    # ---- source meaning: nothing applied ----
    src = SigmaCollection.from_dicts(copy.deepcopy(docs), collect_filters=True)
    src_rules = [rule_view(r) for r in src.rules]
    ftrees = [cond_tree(SigmaCondition(f.filter.condition[0], f.filter)) for f in src.filters]
    by_title = {r["title"]: r.pop("dict") for r in src_rules}
    # ---- with the filters, draws recorded or forced, once per run ----
    return {"src": src_rules, "ftrees": ftrees, "runs": [one_run(docs, r, by_title) for r in case["runs"]]}
