"""Framework core: proof-obligation re-check, implementation runs, model runs inside Coq
(vm_compute over generated cases files), verdict logic, evidence and replay files.

Every property module (props/cXX.py) exposes  PROPERTY: Property.
"""
from __future__ import annotations
import concurrent.futures as cf
import dataclasses
import fcntl
import hashlib
import json
import os
import random
import re
import shutil
import subprocess
import sys
import tempfile
import time
from typing import Any, Callable, Optional

VERIF = os.path.dirname(os.path.dirname(os.path.abspath(__file__)))
COQDIR = os.path.join(VERIF, "coq")
def _repo_path():
    if os.environ.get("VERIF_REPO"):
        return os.environ["VERIF_REPO"]
    f = os.path.join(VERIF, ".repo_path")   # development worktrees only (git-ignored)
    if os.path.exists(f):
        return open(f).read().strip()
    return "/repo"


REPO = _repo_path()
IMPL_PY = os.environ.get("VERIF_IMPL_PY", "/venv/bin/python")
NPROC = int(os.environ.get("VERIF_NPROC", "14"))

ALLOWED_AXIOMS: set[str] = set()  # every property theorem is expected to be closed

TRUSTED_BASE = [
    "Coq 8.16.1 kernel (coqc full .vo build, no -vos); vm_compute used for finite sweeps, "
    "non-vacuity examples and for evaluating the model on generated cases; no native_compute",
    "axioms: none declared; Print Assumptions of every property theorem must report "
    "'Closed under the global context'",
    "no extraction: the executable model is evaluated inside Coq by vm_compute",
    "correspondence harness (Python generators, encoders of cases into Coq terms, canonicalisation, "
    "subprocess running /repo's working tree with /venv/bin/python, CPython 3.12, pyparsing, PyYAML, re, ipaddress)",
]


# ------------------------------------------------------------------------------------------
# Coq term helpers
# ------------------------------------------------------------------------------------------
def cstr(s: str) -> str:
    """Python str -> Coq term of type str (list N) in N_scope."""
    return "[" + ";".join(str(ord(c)) for c in s) + "]"


def cbytes(b: bytes) -> str:
    return "[" + ";".join(str(x) for x in b) + "]"


def clist(items) -> str:
    return "[" + ";".join(items) + "]"


def cbool(b: bool) -> str:
    return "true" if b else "false"


def copt(x: Optional[str]) -> str:
    return "None" if x is None else f"(Some {x})"


def cnat(n: int) -> str:
    return f"{n}%nat"


def cZ(n: int) -> str:
    return f"({n})%Z"


# ------------------------------------------------------------------------------------------
@dataclasses.dataclass
class Suite:
    """One correspondence suite: generated cases are run on the implementation, then judged in Coq.

    judge (a Coq function  case -> N) returns a bit set:
      1  model output == implementation output                (correspondence)
      2  specification oracle accepts the implementation output (property on the real code)
      4  the input lies in the domain of the proved theorem
      8  non-trivial case (exercises a non-default branch; defined per suite)
    """
    name: str
    gen: Callable[[str, random.Random], list]            # (tier, rng) -> cases (JSON-able)
    impl: str                                            # function name in impl/<pid>.py
    coq_requires: list[str]                              # modules to Require Import
    judge: str                                           # Coq function name
    to_coq: Callable[[Any, Any], Optional[str]]          # (case, impl result) -> Coq term or None (skip)
    known: Callable[[Any, Any], Optional[str]] = lambda c, r: None   # -> finding id
    mutate: Optional[Callable[[Any, random.Random], list]] = None    # neighbourhood for the search
    describe: Callable[[Any], str] = lambda c: json.dumps(c, ensure_ascii=True)[:300]
    py_oracle: Optional[Callable[[Any, Any], Optional[str]]] = None  # extra oracle in Python: message if violated
    stratum: Callable[[Any, Any], str] = lambda c, r: "all"
    env: dict = dataclasses.field(default_factory=dict)  # extra env for the impl subprocess
    shard: int = 300


@dataclasses.dataclass
class Property:
    pid: str
    props_file: str                  # coq/Props/Cxx.v
    suites: list[Suite]
    level: str = "proof"
    rule: str = ""
    assumptions: list[str] = dataclasses.field(default_factory=list)
    extra_checks: list[Callable] = dataclasses.field(default_factory=list)  # (ctx) -> list[Problem]


@dataclasses.dataclass
class Problem:
    kind: str            # 'violation' | 'correspondence' | 'obligation' | 'internal'
    suite: str
    case: Any
    detail: dict


# ------------------------------------------------------------------------------------------
def sh(cmd, timeout, cwd=None, env=None, input=None):
    p = subprocess.run(cmd, cwd=cwd, env=env, input=input, capture_output=True, text=True,
                       timeout=timeout)
    out = "\n".join(l for l in (p.stdout + p.stderr).splitlines() if "conda.cli.condarc" not in l)
    return p.returncode, out


def ensure_built():
    """Incremental full build of the Coq development (no-op when up to date; mkproject.sh takes a lock)."""
    rc, out = sh([os.path.join(VERIF, "mkproject.sh")], timeout=3400)
    if rc != 0:
        print(out[-4000:])
        raise SystemExit(2)


def check_obligations(props_file: str):
    """Re-compile the property file from scratch and read its Print Assumptions output."""
    path = os.path.join(COQDIR, props_file)
    src = open(path).read()
    theorems = re.findall(r"^\s*Theorem\s+([A-Za-z0-9_']+)", src, flags=re.M)
    tmp = tempfile.mkdtemp(prefix="verif_props_")
    try:
        # compile a copy so that the installed .vo is not disturbed
        dst = os.path.join(tmp, "PropsCheck.v")
        shutil.copy(path, dst)
        rc, out = sh(["timeout", "600", "coqc", "-Q", COQDIR, "PS", dst], timeout=700)
    finally:
        shutil.rmtree(tmp, ignore_errors=True)
    closed = len(re.findall(r"Closed under the global context", out))
    axioms = re.findall(r"^Axioms:\s*$", out, flags=re.M)
    discharged = closed if rc == 0 else 0
    problems = []
    if rc != 0:
        problems.append(Problem("obligation", "props", props_file, {"output": out[-3000:]}))
    elif axioms or closed != len(theorems):
        problems.append(Problem("obligation", "props", props_file,
                                {"output": out[-3000:], "theorems": theorems, "closed": closed}))
        discharged = min(closed, len(theorems))
    # hygiene: nothing admitted anywhere in the development
    rc2, out2 = sh(["grep", "-rnE", r"Admitted|admit\.|^\s*Axiom |^\s*Parameter |^\s*Conjecture |Unset Guard|bypass_check|type-in-type",
                    "--include=*.v", COQDIR], timeout=60)
    if out2.strip():
        problems.append(Problem("obligation", "hygiene", props_file, {"output": out2[:2000]}))
        discharged = 0
    return theorems, discharged, problems, out


# ------------------------------------------------------------------------------------------
def run_impl(pid: str, func: str, cases: list, extra_env: dict | None = None, timeout=3000) -> list:
    """Run impl/<pid>.py:<func> on every case against /repo's working tree (parallel chunks)."""
    if not cases:
        return []
    n = min(NPROC, max(1, len(cases) // 50))
    chunks = [cases[i::n] for i in range(n)]
    env = dict(os.environ)
    env.update({"PYTHONPATH": REPO + os.pathsep + VERIF, "PYTHONHASHSEED": "0", "PYTHONDONTWRITEBYTECODE": "1"})
    env.update(extra_env or {})

    def one(chunk):
        for attempt in range(3):
            p = subprocess.run([IMPL_PY, os.path.join(VERIF, "impl", "runner.py"), pid, func],
                               input="\n".join(json.dumps(c) for c in chunk) + "\n",
                               capture_output=True, text=True, env=env, timeout=timeout, cwd=VERIF)
            if p.returncode >= 0:
                break
            time.sleep(2 + 3 * attempt)       # killed by a signal: try again
        lines = [l for l in p.stdout.splitlines() if l.startswith("R ")]
        if p.returncode != 0 or len(lines) != len(chunk):
            raise RuntimeError(f"impl runner failed rc={p.returncode}: {p.stderr[-2000:]}")
        return [json.loads(l[2:]) for l in lines]

    with cf.ThreadPoolExecutor(n) as ex:
        res = list(ex.map(one, chunks))
    out = [None] * len(cases)
    for k, r in enumerate(res):
        out[k::n] = r
    return out


_COQ_HEADER = """From Coq Require Import NArith ZArith List Bool.
Import ListNotations.
Open Scope N_scope.
"""


def run_coq_judge(requires: list[str], judge: str, terms: list[str], shard=300, timeout=1500) -> list[int]:
    """Evaluate `judge` on every term inside Coq (vm_compute); returns one integer per term."""
    if not terms:
        return []
    tmp = tempfile.mkdtemp(prefix="verif_cases_")
    try:
        files = []
        for k in range(0, len(terms), shard):
            fn = os.path.join(tmp, f"cases{k // shard}.v")
            with open(fn, "w") as f:
                f.write(_COQ_HEADER)
                for r in requires:
                    f.write(f"From PS Require Import {r}.\n")
                f.write("Open Scope N_scope.\n")   # whatever scopes the imported files export
                f.write("Definition cases := [\n" + ";\n".join(terms[k:k + shard]) + "\n].\n")
                f.write(f"Definition results : list N := map {judge} cases.\n")
                f.write("Eval vm_compute in results.\n")
            files.append(fn)

        def one(fn):
            for attempt in range(3):
                rc, out = sh(["timeout", str(timeout), "coqc", "-Q", COQDIR, "PS", fn], timeout=timeout + 60)
                if rc == 0 or out.strip():
                    break
                time.sleep(2 + 3 * attempt)   # killed without output (memory pressure): try again
            if rc != 0:
                raise RuntimeError(f"coqc failed on generated cases ({fn}) rc={rc}:\n{out[-3000:]}")
            m = re.search(r"=\s*\[(.*?)\]\s*(%N)?\s*:\s*list N", out, flags=re.S)
            if not m:
                raise RuntimeError("cannot parse Coq output:\n" + out[-2000:])
            body = m.group(1).strip()
            return [int(x) for x in re.findall(r"\d+", body)]

        with cf.ThreadPoolExecutor(NPROC) as ex:
            parts = list(ex.map(one, files))
        res = [x for p in parts for x in p]
        if len(res) != len(terms):
            raise RuntimeError(f"Coq returned {len(res)} results for {len(terms)} cases")
        return res
    finally:
        shutil.rmtree(tmp, ignore_errors=True)


def coq_eval(requires: list[str], expr: str, timeout=300) -> str:
    """Evaluate one expression in Coq and return the raw printed text (used in replays)."""
    tmp = tempfile.mkdtemp(prefix="verif_eval_")
    try:
        fn = os.path.join(tmp, "ev.v")
        with open(fn, "w") as f:
            f.write(_COQ_HEADER)
            for r in requires:
                f.write(f"From PS Require Import {r}.\n")
            f.write(f"Eval vm_compute in ({expr}).\n")
        rc, out = sh(["timeout", str(timeout), "coqc", "-Q", COQDIR, "PS", fn], timeout=timeout + 30)
        return out.strip()
    finally:
        shutil.rmtree(tmp, ignore_errors=True)


# ------------------------------------------------------------------------------------------
def load_known_findings():
    """known_findings.json (committed, never written at run time); during development a property's
    entries may sit in known_findings.d/<pid>.json until they are merged into the main file."""
    out = []
    p = os.path.join(VERIF, "known_findings.json")
    if os.path.exists(p):
        out += json.load(open(p))
    d = os.path.join(VERIF, "known_findings.d")
    if os.path.isdir(d):
        for fn in sorted(os.listdir(d)):
            if fn.endswith(".json"):
                out += json.load(open(os.path.join(d, fn)))
    return out


def corpus_cases(pid: str, suite: str) -> list:
    d = os.path.join(VERIF, "corpus", pid)
    out = []
    if os.path.isdir(d):
        for fn in sorted(os.listdir(d)):
            if fn.startswith(suite + "-") and fn.endswith(".json"):
                out.append(json.load(open(os.path.join(d, fn))))
    return out


def case_key(c) -> str:
    return hashlib.sha1(json.dumps(c, sort_keys=True).encode()).hexdigest()


def run_suite(pid: str, suite: Suite, tier: str, seed: int, only_cases=None):
    rng = random.Random(f"{seed}:{pid}:{suite.name}")
    if only_cases is not None:
        cases = only_cases
    else:
        cases = corpus_cases(pid, suite.name) + suite.gen(tier, rng)
    # de-duplicate, keep order
    seen, uniq = set(), []
    for c in cases:
        k = case_key(c)
        if k not in seen:
            seen.add(k)
            uniq.append(c)
    cases = uniq
    impl = run_impl(pid, suite.impl, cases, suite.env)
    idx, terms = [], []
    for i, (c, r) in enumerate(zip(cases, impl)):
        t = suite.to_coq(c, r)
        if t is not None:
            idx.append(i)
            terms.append(t)
    bits_l = run_coq_judge(suite.coq_requires, suite.judge, terms, shard=suite.shard)
    bits = [None] * len(cases)
    for i, b in zip(idx, bits_l):
        bits[i] = b
    return cases, impl, bits


def evaluate(prop: Property, tier: str, seed: int):
    t0 = time.time()
    problems: list[Problem] = []
    known_hits: dict[str, Any] = {}
    stats = {"evaluations": 0, "nontrivial_keys": set(), "suites": {}, "samples": []}
    theorems, discharged, oprobs, pa_out = check_obligations(prop.props_file)
    problems += oprobs
    kf = {f["id"]: f for f in load_known_findings() if f.get("property") == prop.pid and f.get("status") == "known"}

    for suite in prop.suites:
        cases, impl, bits = run_suite(prop.pid, suite, tier, seed)
        st = {"cases": len(cases), "agree": 0, "spec_ok": 0, "in_domain": 0, "nontrivial": 0,
              "skipped": 0, "known_finding_cases": 0, "strata": {}, "impl_errors": {}}
        disagreements = []
        for c, r, b in zip(cases, impl, bits):
            s = suite.stratum(c, r)
            st["strata"][s] = st["strata"].get(s, 0) + 1
            if isinstance(r, dict) and "exc" in r:
                st["impl_errors"][r["exc"]] = st["impl_errors"].get(r["exc"], 0) + 1
            if b is None:
                st["skipped"] += 1
                continue
            agree, spec, dom, nontriv = bool(b & 1), bool(b & 2), bool(b & 4), bool(b & 8)
            st["agree"] += agree
            st["spec_ok"] += spec
            st["in_domain"] += dom
            if nontriv:
                st["nontrivial"] += 1
                stats["nontrivial_keys"].add(suite.name + ":" + case_key(c))
            pyviol = suite.py_oracle(c, r) if suite.py_oracle else None
            if not spec or pyviol:
                fid = suite.known(c, r)
                if fid is not None and fid in kf and agree and not pyviol:
                    known_hits.setdefault(fid, c)
                    st["known_finding_cases"] += 1
                elif agree and dom and not pyviol:
                    # The specification oracle is the arbiter of the property.  Model = implementation on an input of the
                    # proved domain while the oracle rejects happens when the model's input was already produced by
                    # the implementation (an intermediate result that carries the defect), or when harness and theorem
                    # disagree; both are reported as a violation with the failing input, the note says which to look at.
                    problems.append(Problem("violation", suite.name, c,
                                            {"impl": r, "bits": b, "py_oracle": None,
                                             "note": "model = implementation and the input lies in the proved domain, yet the specification "
                                                     "oracle rejects the implementation's output: either the part of the input that the model "
                                                     "takes from the implementation (an intermediate result) already carries the defect, or "
                                                     "harness and theorem disagree"}))
                else:
                    problems.append(Problem("violation", suite.name, c, {"impl": r, "bits": b, "py_oracle": pyviol}))
            elif not agree:
                disagreements.append((c, r, b))
        # correspondence broken without a concrete property failure: search the neighbourhood
        if disagreements and not any(p.kind == "violation" and p.suite == suite.name for p in problems):
            found = False
            if suite.mutate is not None:
                rng = random.Random(f"{seed}:search:{suite.name}")
                neigh = []
                for c, r, b in disagreements[:20]:
                    neigh += suite.mutate(c, rng)
                if neigh:
                    ncases, nimpl, nbits = run_suite(prop.pid, suite, tier, seed, only_cases=neigh[:3000])
                    for c, r, b in zip(ncases, nimpl, nbits):
                        if b is not None and not (b & 2):
                            fid = suite.known(c, r)
                            if fid is not None and fid in kf and (b & 1):
                                continue
                            problems.append(Problem("violation", suite.name, c, {"impl": r, "bits": b, "found_by": "neighbourhood search"}))
                            found = True
                            break
            if not found:
                c, r, b = disagreements[0]
                problems.append(Problem("correspondence", suite.name, c,
                                        {"impl": r, "bits": b, "count": len(disagreements),
                                         "broken": f"{prop.pid}: implementation != model ({suite.judge}) on this input"}))
        elif disagreements:
            pass  # concrete violations already reported for this suite
        stats["evaluations"] += len(cases)
        stats["suites"][suite.name] = st
        for c, r in list(zip(cases, impl))[:2]:
            stats["samples"].append({"suite": suite.name, "case": c, "impl": r})
        # a declared stratum must not be empty
    for extra in prop.extra_checks:
        ex = extra(tier, seed)
        problems += ex.get("problems", [])
        stats["evaluations"] += ex.get("evaluations", 0)
        for k in ex.get("nontrivial_keys", []):
            stats["nontrivial_keys"].add(k)
        stats["suites"][ex["name"]] = ex.get("stats", {})
        stats["samples"] += ex.get("samples", [])[:2]
        for fid, c in ex.get("known_hits", {}).items():
            if fid in kf:
                known_hits.setdefault(fid, c)
    return {
        "theorems": theorems, "discharged": discharged, "problems": problems,
        "known_hits": known_hits, "stats": stats, "wall": time.time() - t0, "kf": kf,
        "print_assumptions": pa_out,
    }


def write_replay(pid: str, prob: Problem) -> str:
    d = os.path.join(VERIF, "replay")
    os.makedirs(d, exist_ok=True)
    body = {"property": pid, "kind": prob.kind, "suite": prob.suite, "case": prob.case, "detail": prob.detail}
    h = hashlib.sha1(json.dumps(body, sort_keys=True, default=str).encode()).hexdigest()[:12]
    p = os.path.join(d, f"{pid}-{h}.json")
    with open(p, "w") as f:
        json.dump(body, f, indent=1, default=str)
    return p


def main_check(prop: Property, tier: str, seed: int) -> int:
    ensure_built()
    res = evaluate(prop, tier, seed)
    stats = res["stats"]
    rc = 0
    lines = []
    internal = [p for p in res["problems"] if p.kind == "internal"]
    for fid, c in sorted(res["known_hits"].items()):
        f = res["kf"][fid]
        lines.append(f"KNOWN-FINDING: property={prop.pid} {fid}: {f['what']}")
    # known findings whose witness no longer reproduces are still printed (nothing is suppressed for them)
    for fid, f in sorted(res["kf"].items()):
        if fid not in res["known_hits"]:
            lines.append(f"KNOWN-FINDING: property={prop.pid} {fid}: {f['what']} (not reproduced in this run)")
    seen = set()
    nviol = 0
    for p in res["problems"]:
        if p.kind == "internal":
            continue
        key = (p.kind, p.suite)
        if key in seen:
            nviol += 1
            continue
        seen.add(key)
        nviol += 1
        path = write_replay(prop.pid, p)
        if p.kind == "violation":
            lines.append(f"VIOLATION property={prop.pid} replay={path}")
        else:
            lines.append(f"VIOLATION property={prop.pid} replay={path} no-failing-input-found")
        rc = 1
    for l in lines:
        print(l)
    if internal and rc == 0:
        for p in internal[:3]:
            print(f"INTERNAL-ERROR property={prop.pid} suite={p.suite} case={json.dumps(p.case)[:400]} {p.detail.get('why')}")
        rc = 2
    ev = {
        "property_id": prop.pid, "tier": tier, "seed": seed, "level": prop.level,
        "coverage": {
            "obligations": len(res["theorems"]), "discharged": res["discharged"],
            "checker_cmd": f"coqc -Q coq PS coq/{prop.props_file}  (after ./mkproject.sh: coq_makefile + make, full .vo build)",
            "trusted_base": TRUSTED_BASE + prop.assumptions,
            "theorems": res["theorems"],
            "evaluations": stats["evaluations"],
            "distinct_nontrivial": len(stats["nontrivial_keys"]),
            "rule": prop.rule,
            "samples": stats["samples"][:8],
            "suites": stats["suites"],
            "exhaustive": False,
        },
        "assumptions": prop.assumptions,
        "wall_s": round(res["wall"], 2),
        "violations": nviol,
    }
    os.makedirs(os.path.join(VERIF, "evidence"), exist_ok=True)
    with open(os.path.join(VERIF, "evidence", f"{prop.pid}.json"), "w") as f:
        json.dump(ev, f, indent=1, default=str)
    return rc
