"""./check Cxx --replay file : re-run the recorded case on the implementation and in the model."""
import json
from . import core

def replay(prop, path):
    body = json.load(open(path))
    core.ensure_built()
    suite = next((s for s in prop.suites if s.name == body["suite"]), None)
    if suite is None:
        print(json.dumps(body, indent=1)); return 1
    cases, impl, bits = core.run_suite(prop.pid, suite, "quick", 0, only_cases=[body["case"]])
    c, r, b = cases[0], impl[0], bits[0]
    print("case:           ", json.dumps(c))
    print("implementation: ", json.dumps(r))
    print("judge bits:     ", b, "(1 model=impl, 2 spec accepts impl, 4 in proved domain, 8 non-trivial)")
    t = suite.to_coq(c, r)
    if t is not None and hasattr(suite, "model_expr"):
        print(core.coq_eval(suite.coq_requires, suite.model_expr + " " + t))
    return 0 if (b is not None and b & 2 and b & 1) else 1
